#!/usr/bin/env python3
"""Turns a TLC state-graph dump of ParEncoder.tla (-dump dot,actionlabels) into a set of thread
schedules that covers every edge of the graph, together with what the model expects at every
state (program counter of every thread, set of runnable threads, queue lengths).

    graph.py <dump.dot> <out.json> [--max-paths N] [--seed S]

Every path starts in the initial state and ends in a terminal state (no outgoing edge)."""
import collections
import json
import random
import re
import sys

RE_NODE = re.compile(r'^(-?\d+) \[label="((?:[^"\\]|\\.)*)"')
RE_EDGE = re.compile(r'^(-?\d+) -> (-?\d+) \[label="([A-Za-z0-9_()]+)"')


def field(label, name):
    m = re.search(r'/\\\\ ' + name + r' = (.*?)(\\n|$)', label)
    return m.group(1) if m else None


def tla_strings(s):
    return re.findall(r'\\"([^\\"]*)\\"', s)


def seq_len(s):
    s = s.strip()
    if s == "<<>>":
        return 0
    return s.count(",") + 1


def parse(path):
    nodes, edges, init = {}, collections.defaultdict(list), None
    with open(path) as fh:
        for line in fh:
            m = RE_EDGE.match(line)
            if m:
                if m.group(1) != m.group(2) or True:
                    edges[m.group(1)].append((m.group(3), m.group(2)))
                continue
            m = RE_NODE.match(line)
            if m and m.group(1) not in nodes:
                lab = m.group(2)
                nodes[m.group(1)] = dict(
                    mpc=tla_strings(field(lab, "mpc"))[0],
                    hpc=tla_strings(field(lab, "hpc"))[0],
                    wpc=tla_strings(field(lab, "wpc")),
                    encq=seq_len(field(lab, "encq")), refq=seq_len(field(lab, "refq")), pq=seq_len(field(lab, "pq")),
                    result=tla_strings(field(lab, "result"))[0],
                    cfgv=field(lab, "cfgv"))
                if "style = filled" in line:
                    init = init or m.group(1)
    return nodes, edges, init


def cover(nodes, edges, init, max_paths, seed):
    rnd = random.Random(seed)
    # drop self loops (stuttering) and duplicate edges
    out = {s: sorted(set((l, t) for (l, t) in es if t != s)) for s, es in edges.items()}
    for s in nodes:
        out.setdefault(s, [])
    # shortest path tree from init
    parent = {init: None}
    dq = collections.deque([init])
    order = []
    while dq:
        s = dq.popleft()
        order.append(s)
        for (l, t) in out[s]:
            if t not in parent:
                parent[t] = (s, l)
                dq.append(t)
    # distance to a terminal state
    rev = collections.defaultdict(list)
    for s, es in out.items():
        for (l, t) in es:
            rev[t].append(s)
    dist = {s: 0 for s in nodes if not out[s]}
    dq = collections.deque(dist)
    while dq:
        t = dq.popleft()
        for s in rev[t]:
            if s not in dist:
                dist[s] = dist[t] + 1
                dq.append(s)
    covered = set()
    paths = []
    all_edges = [(s, l, t) for s in order for (l, t) in out[s]]
    total = len(all_edges)
    for (s, l, t) in all_edges:
        if (s, l, t) in covered:
            continue
        if max_paths and len(paths) >= max_paths:
            break
        # init -> s
        pre = []
        x = s
        while parent[x] is not None:
            p, pl = parent[x]
            pre.append((p, pl))
            x = p
        pre.reverse()
        path = pre + [(s, l)]
        for i, (a, al) in enumerate(path):
            b = path[i + 1][0] if i + 1 < len(path) else t
            covered.add((a, al, b))
        cur = t
        guard = 0
        while out[cur] and guard < 100000:
            guard += 1
            fresh = [(l2, t2) for (l2, t2) in out[cur] if (cur, l2, t2) not in covered and t2 in dist]
            if fresh:
                l2, t2 = rnd.choice(fresh)
            else:
                l2, t2 = min(out[cur], key=lambda e: dist.get(e[1], 1 << 30))
            path.append((cur, l2))
            covered.add((cur, l2, t2))
            cur = t2
        path.append((cur, None))
        paths.append(path)
    return paths, total, len(covered), out


def main():
    dump, outp = sys.argv[1], sys.argv[2]
    max_paths, seed = 0, 1
    a = sys.argv[3:]
    for i, x in enumerate(a):
        if x == "--max-paths":
            max_paths = int(a[i + 1])
        if x == "--seed":
            seed = int(a[i + 1])
    nodes, edges, init = parse(dump)
    paths, total, ncov, out = cover(nodes, edges, init, max_paths, seed)
    ids = {s: i for i, s in enumerate(nodes)}
    states = []
    for s, n in nodes.items():
        states.append(dict(n, en=sorted(set(l for (l, _) in out[s]))))
    doc = dict(states=states, init=ids[init], edges=total, covered=ncov,
               paths=[[[ids[s], l] for (s, l) in p] for p in paths])
    json.dump(doc, open(outp, "w"))
    print(json.dumps(dict(states=len(nodes), edges=total, covered=ncov, paths=len(paths),
                          steps=sum(len(p) for p in paths))))


if __name__ == "__main__":
    main()
