#!/bin/bash
# seed_confirm.sh <worktree> <outdir> <seed-name> <property> : confirms a seeded change in its scratch
# worktree (demo fails with it, passes without it, existing tests pass) and files it under /verif/seeded/.
set -u
WT=$1; OUT=$2; NAME=$3; PROP=$4
cd "$WT" || exit 2
DEMO=$(ls tests/demo_*.rs 2>/dev/null | head -1)
[ -z "$DEMO" ] && { echo "no demo test"; exit 2; }
T=$(basename "$DEMO" .rs)
echo "== demo with the change (must fail)"
cargo test --offline ${SEED_FEATURES:+--features $SEED_FEATURES} --test "$T" >/tmp/seed_with.log 2>&1; W=$?
echo "exit=$W"
echo "== demo without the change (must pass)"
git stash push -q -- src; cargo test --offline ${SEED_FEATURES:+--features $SEED_FEATURES} --test "$T" >/tmp/seed_without.log 2>&1; WO=$?; git stash pop -q
echo "exit=$WO"
echo "== existing tests with the change (must pass)"
mv "$DEMO" /tmp/seed_demo_aside.rs
cargo test --workspace --no-fail-fast --offline >/tmp/seed_suite.log 2>&1; S=$?
mv /tmp/seed_demo_aside.rs "$DEMO"
grep -E "^test result" /tmp/seed_suite.log | head -3
echo "exit=$S"
if [ $W -ne 0 ] && [ $WO -eq 0 ] && [ $S -eq 0 ]; then
  D=/verif/seeded/$NAME; mkdir -p $D
  git diff -- src > $D/patch.diff
  cp "$DEMO" $D/
  python3 - "$OUT/meta.json" "$D/meta.json" "$PROP" <<'PY'
import json,sys
try: m=json.load(open(sys.argv[1]))
except Exception: m={}
m["property"]=sys.argv[3]
m["confirmed"]={"demo_fails_with_change":True,"demo_passes_without_change":True,"existing_tests_pass_with_change":True,
 "how":"tools/seed_confirm.sh in the sub-agent's scratch worktree: cargo test --test demo (with / without the src change), cargo test --workspace"}
json.dump(m,open(sys.argv[2],"w"),indent=1)
PY
  echo "CONFIRMED -> $D"
else
  echo "NOT CONFIRMED"; exit 1
fi
