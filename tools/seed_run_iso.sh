#!/bin/bash
# seed_run_iso.sh <seed-name> <property> [tier] : like seed_run.sh, but on scratch copies of /repo and /verif
# (under /tmp/sv-<seed>), so that /repo itself is never touched (a background run may be using it).  The
# copies are removed afterwards; the log is kept in /verif/.work/.
set -u
NAME=$1; PROP=$2; TIER=${3:-quick}
ISO=/tmp/sv-$NAME
rm -rf $ISO; mkdir -p $ISO
rsync -a --exclude .git --exclude target /repo/ $ISO/repo/
if [ -n "${SEED_FROM_HEAD:-}" ]; then
  # the committed tree (seed_all.sh: immune to edits in progress) + the build caches
  mkdir -p $ISO/verif; git -C /verif archive HEAD | tar -x -C $ISO/verif
  for t in /verif/harness/target /verif/harness20/target-*; do [ -d $t ] && rsync -a $t $ISO/verif/$(basename $(dirname $t))/; done
else
  rsync -a --exclude .git --exclude .work /verif/ $ISO/verif/
fi
(cd $ISO/repo && patch -s -p1 < ${SEED_PATCH:-/verif/seeded/$NAME/patch.diff}) || { echo "patch does not apply"; rm -rf $ISO; exit 2; }
sed -i "s|path = \"/repo\"|path = \"$ISO/repo\"|" $ISO/verif/harness/Cargo.toml $ISO/verif/harness20/Cargo.toml
grep -rl '"/verif/' $ISO/verif/harness/src | xargs -r sed -i "s|\"/verif/|\"$ISO/verif/|g"
python3 $ISO/verif/tools/check.py $PROP --tier $TIER > /verif/.work/seed_${NAME}_${PROP}.log 2>&1; RC=$?
echo "check $PROP on seed $NAME (isolated): exit=$RC"
grep -E "^(VIOLATION|KNOWN|OK|TOOL-ERROR)" /verif/.work/seed_${NAME}_${PROP}.log | head -4
grep -E "^  " /verif/.work/seed_${NAME}_${PROP}.log | head -3
rm -rf $ISO
exit $RC
