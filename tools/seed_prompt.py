import sys
pid=sys.argv[1]
prop=open(f'/tmp/mut/out/{pid}.txt').read()
print(f"""You are helping to test a verification framework by writing ONE realistic, subtle bug ("seeded change") for a Rust library.

The library is flacenc-rs (a pure-Rust FLAC encoder). You have your own scratch git worktree of it at /tmp/mut/{pid} (work ONLY there; do not touch /repo or /verif or any other directory except your output directory /tmp/mut/out/{pid}/). The sandbox has no network; use `cargo ... --offline`. Build output must stay inside the worktree (default target dir).

This is the semantic property your change must BREAK:

{prop}

Task:
1. Read the relevant code in /tmp/mut/{pid}/src (start from README.md / src/lib.rs).
2. Make a small source change (a few lines, the kind of mistake a maintainer could plausibly make in a refactoring, optimisation or "fix") that violates the property above, while
   - the crate still compiles (`cd /tmp/mut/{pid} && cargo build --offline`), and
   - the existing test suite still passes completely: `cd /tmp/mut/{pid} && cargo test --workspace --no-fail-fast --offline` (all tests green; do not edit or delete any existing test).
3. The violation must need something SPECIFIC to manifest - a particular thread interleaving, a fault at a particular point, a multi-step sequence of operations, an unusual input (special width / length / value / configuration), or two cooperating code sites that each look fine alone. It must NOT be something that ordinary use (e.g. encoding a typical 16-bit stereo file with default settings) would expose at once.
4. Write a demonstration: a small Rust integration test file (put it at /tmp/mut/{pid}/tests/demo_{pid.lower()}.rs, using only the crate's public API and dev-dependencies that are already in Cargo.toml) that FAILS with your change and PASSES without it. Verify both: run it with the change, then `git stash` the src change (keep the test file), run it again, then `git stash pop`. If a deterministic demonstration needs the verification hooks compiled in, you may build with RUSTFLAGS="--cfg flacenc_verif" (see src/verif.rs), but prefer the plain public API.
5. Save into /tmp/mut/out/{pid}/ :
   - patch.diff : output of `git -C /tmp/mut/{pid} diff -- src` (ONLY the source change, not the demo test),
   - the demonstration test file (copy),
   - meta.json : {{"property": "{pid}", "summary": "<one line>", "needs_to_manifest": "<what specific condition is needed>", "files_changed": [...], "demo_cmd": "<command that runs the demo>", "demo_fails_with_change": true, "demo_passes_without_change": true, "existing_tests_pass": true}}
6. Leave the worktree with the change applied and the demo test present.

Do not weaken or special-case anything to make tests pass; do not add cfg flags or environment switches that hide the bug. Keep the change minimal and realistic. Report briefly what you changed and the commands you ran with their outcomes.""")
