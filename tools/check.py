#!/usr/bin/env python3
"""Entry point of every check registered in /verif/MANIFEST.json.

    python3 tools/check.py <Cxx> [--tier quick|thorough] [--replay <path>]

exit 0: property held on everything explored (KNOWN-FINDING lines possible)
exit 1: violation, with a line  VIOLATION property=<id> replay=<path>
exit 2: tool error / time-out (never a verdict)
"""
import argparse
import json
import os
import sys
import time

sys.path.insert(0, os.path.dirname(os.path.abspath(__file__)))
import vlib
from vlib import ToolError, log


class Result:
    """What a check hands back to main(): failures keyed for known-findings, plus evidence."""

    def __init__(self):
        self.failures = []      # list of dict(key=..., what=..., replay=payload, trace_lines=[...])
        self.coverage = {}
        self.level = "model_checking"
        self.assumptions = []


# --------------------------------------------------------------------------- stream checks
STREAM = {
    # prop: (profile, extra harness args quick, extra harness args thorough)
    "C01": ("c01", ["--cases", 900, "--cost", 1500000], ["--cases", 9000, "--cost", 30000000, "--bigshare", 40]),
    "C02": ("c02", ["--cases", 700, "--cost", 1000000], ["--cases", 7000, "--cost", 20000000, "--bigshare", 30]),
    "C03": ("c03", ["--cases", 500, "--cost", 500000], ["--cases", 4000, "--cost", 8000000, "--bigshare", 10]),
    "C04": ("c04", ["--sweep", "--cases", 400, "--cost", 500000], ["--sweep", "--cases", 3000, "--cost", 10000000, "--bigshare", 20]),
    "C08": ("c08", ["--counts", "--cases", 700, "--cost", 1000000], ["--counts", "--cases", 6000, "--cost", 20000000, "--bigshare", 20]),
    "C09": ("c09", ["--cases", 900, "--cost", 1500000], ["--cases", 9000, "--cost", 30000000, "--bigshare", 40]),
    "C13": ("c13", ["--cases", 400, "--cost", 400000], ["--cases", 3000, "--cost", 6000000, "--bigshare", 10]),
}


def stream_key(prop, case, msgs):
    import re
    norm = sorted(set(re.sub(r"\d+", "#", m) for m in msgs))
    return f"{prop} {' / '.join(norm)} [family={case.get('family')} bps={case.get('bps')} mode={case.get('mode')} cfg={case.get('cfg')}]"


def check_stream(prop, tier, seed, only=None, outdir=None):
    res = Result()
    profile, qa, ta = STREAM[prop]
    out = outdir or os.path.join(vlib.WORK, f"{prop}-{tier}")
    import shutil
    shutil.rmtree(out, ignore_errors=True)
    args = ["stream", "--profile", profile, "--props", prop, "--tier", tier, "--seed", seed,
            "--out", out, "--shards", vlib.JVMS * (3 if tier == "thorough" else 1)] + (ta if tier == "thorough" else qa)
    if only:
        args += ["--only", only]
    summary = vlib.run_fv(args)
    files = summary["files"]
    verdicts, states, trans, _ = vlib.run_trace_shards("TraceStream.tla", "TraceStream.cfg", files,
                                                       timeout=3600 if tier == "thorough" else 1500, tagp=prop)
    if len(verdicts) != summary["cases"]:
        raise ToolError(f"{summary['cases']} cases driven but {len(verdicts)} verdicts returned by TLC")
    accepted = 0
    skipped = 0
    for cid, (v, msgs) in sorted(verdicts.items()):
        if v == "skip":
            skipped += 1
            continue
        mine = [m for m in msgs if m.startswith(prop + ":") or m.startswith("ALL:")]
        if not mine:
            accepted += 1
            continue
        lines = vlib.extract_case(files, cid)
        case = json.loads(lines[0]) if lines else {}
        case.pop("bytes", None)
        res.failures.append(dict(
            key=stream_key(prop, case, mine), what=f"case {cid}: " + "; ".join(mine[:3]),
            replay=dict(property=prop, kind="stream", case=cid, seed=seed, tier=tier, harness_args=args,
                        conjuncts=mine, case_header=case),
            trace_lines=lines, name=cid))
    res.coverage = dict(
        states=states, transitions=trans, traces_validated_against_impl=accepted,
        skipped_oversize_streams=skipped,
        evaluations=summary["cases"], distinct_nontrivial=summary["classes"],
        rule="cases drawn from the generator of DESIGN section 4 (seeded); distinct = distinct class signatures "
             "(channels/width/signal family/mode/default-or-random config/block-size class/length class), counted by the harness; "
             "every case has >= 0 frames decoded sample by sample by FlacFormat.tla in TLC",
        subframe_kinds_and_channel_assignments_seen=summary["kinds"], outcomes=summary["outcomes"],
        samples=summary["samples"],
        checker_cmd="tlc -workers 1 -config TraceStream.cfg TraceStream.tla (one JVM per NDJSON shard, env TRACE)")
    res.assumptions = [
        "FlacFormat.tla is a faithful reading of RFC 9639 (cross-checked against claxon during development)",
        "TLC and the CommunityModules Java overrides evaluate the specification correctly",
        "inputs are sampled from the domain; only the enumerated code spaces are exhaustive",
    ]
    return res


# --------------------------------------------------------------------------- registry
CHECKS = {}
for _p in STREAM:
    CHECKS[_p] = check_stream


def replay(prop, path):
    payload = json.load(open(path))
    kind = payload.get("kind")
    if kind == "stream":
        # re-encode the same case with the current working tree and validate it again
        r = check_stream(prop, payload.get("tier", "quick"), payload["seed"], only=payload["case"],
                         outdir=os.path.join(vlib.WORK, f"{prop}-replay"))
        return r
    raise ToolError(f"cannot replay kind {kind!r}")


def main():
    ap = argparse.ArgumentParser()
    ap.add_argument("prop")
    ap.add_argument("--tier", default=os.environ.get("VERIF_TIER", "quick"), choices=["quick", "thorough"])
    ap.add_argument("--replay")
    ap.add_argument("--no-build", action="store_true")
    a = ap.parse_args()
    seed = int(os.environ.get("VERIF_SEED", "1"))
    prop = a.prop
    t0 = time.time()
    try:
        if prop not in CHECKS:
            raise ToolError(f"no check for {prop}")
        vlib.ensure_dirs()
        if not a.no_build:
            vlib.build_harness()
        if a.replay:
            res = replay(prop, a.replay)
        else:
            res = CHECKS[prop](prop, a.tier, seed)
    except ToolError as e:
        print(f"TOOL-ERROR property={prop} {e}")
        sys.exit(2)
    except Exception as e:  # noqa
        import traceback
        traceback.print_exc()
        print(f"TOOL-ERROR property={prop} {type(e).__name__}: {e}")
        sys.exit(2)
    known = vlib.load_known()
    new, seen_known = [], {}
    for f in res.failures:
        k = vlib.match_known(prop, f["key"], known)
        if k:
            seen_known.setdefault(k["key"], (k, f))
        else:
            new.append(f)
    for k, f in seen_known.values():
        print(f"KNOWN-FINDING: property={prop} {k['what']} (e.g. {f['what'][:160]})")
    cov = dict(res.coverage)
    cov["known_findings_reobserved"] = len(seen_known)
    if not a.replay:
        vlib.write_evidence(prop, a.tier, seed, res.level, cov, time.time() - t0, len(new), res.assumptions)
    if new:
        for f in new[:20]:
            path = vlib.write_replay(prop, f.get("name", "case"), f["replay"], f.get("trace_lines"))
            print(f"VIOLATION property={prop} replay={path}")
            print(f"  {f['what'][:400]}")
        if len(new) > 20:
            print(f"  ... and {len(new) - 20} more")
        sys.exit(1)
    print(f"OK property={prop} tier={a.tier} seed={seed} wall={time.time() - t0:.0f}s "
          + " ".join(f"{k}={v}" for k, v in cov.items() if isinstance(v, int)))
    sys.exit(0)


if __name__ == "__main__":
    main()
