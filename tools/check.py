#!/usr/bin/env python3
"""Entry point of every check registered in /verif/MANIFEST.json.

    python3 tools/check.py <Cxx> [--tier quick|thorough] [--replay <path>]

exit 0: property held on everything explored (KNOWN-FINDING lines possible)
exit 1: violation, with a line  VIOLATION property=<id> replay=<path>
exit 2: tool error / time-out (never a verdict)
"""
import argparse
import json
import os
import re
import sys
import time

sys.path.insert(0, os.path.dirname(os.path.abspath(__file__)))
import vlib
from vlib import ToolError, log


class Result:
    """What a check hands back to main(): failures keyed for known-findings, plus evidence."""

    def __init__(self):
        self.failures = []      # list of dict(key=..., what=..., replay=payload, trace_lines=[...])
        self.coverage = {}
        self.level = "model_checking"
        self.assumptions = []


# --------------------------------------------------------------------------- stream checks
STREAM = {
    # prop: (profile, extra harness args quick, extra harness args thorough)
    "C01": ("c01", ["--cases", 900, "--cost", 2500000, "--bigshare", 300], ["--cases", 24000, "--cost", 90000000, "--bigshare", 40]),
    "C02": ("c02", ["--cases", 700, "--cost", 1000000, "--bigshare", 350], ["--cases", 18000, "--cost", 60000000, "--bigshare", 30]),
    "C03": ("c03", ["--cases", 500, "--cost", 1500000], ["--cases", 12000, "--cost", 40000000, "--bigshare", 25]),
    "C04": ("c04", ["--sweep", "--cases", 400, "--cost", 700000], ["--sweep", "--cases", 9000, "--cost", 30000000, "--bigshare", 20]),
    "C08": ("c08", ["--counts", "--cases", 700, "--cost", 1000000, "--bigshare", 350], ["--counts", "--cases", 15000, "--cost", 60000000, "--bigshare", 20]),
    "C09": ("c09", ["--cases", 900, "--cost", 1500000, "--bigshare", 450], ["--cases", 24000, "--cost", 90000000, "--bigshare", 40]),
    "C05": ("c05", ["--cases", 400, "--cost", 500000], ["--cases", 8000, "--cost", 20000000]),
    "C15": ("c15", ["--cases", 600, "--cost", 1400000, "--bigshare", 300], ["--cases", 15000, "--cost", 45000000, "--bigshare", 20]),
    "C14": ("c14", ["--cases", 300, "--cost", 300000], ["--cases", 8000, "--cost", 15000000]),
    "C13": ("c13", ["--cases", 500, "--cost", 1600000, "--frames", 2], ["--cases", 12000, "--cost", 40000000, "--bigshare", 10]),
}


def stream_key(prop, case, msgs):
    import re
    norm = sorted(set(re.sub(r"\d+", "#", m) for m in msgs))
    return f"{prop} {' / '.join(norm)} [family={case.get('family')} bps={case.get('bps')} mode={case.get('mode')} cfg={case.get('cfg')}]"


DESIGN_MC = {
    # design-level small-scope model checking that belongs to a stream property
    "C01": [("Schemes.tla", "Schemes.cfg", "Schemes: fold/split, stereo, fixed, LPC lemmas; complete block-size / sample-rate / UTF-8 code spaces")],
    "C03": [("EncoderSeq.tla", "EncoderSeq.cfg", "EncoderSeq: InfoTruth over every length 0..10, fault and bad-block scenario (BS=3)")],
    "C04": [("EncoderSeq.tla", "EncoderSeq.cfg", "EncoderSeq: InfoBounds over every length 0..10 (BS=3, MinBS=2)")],
    "C09": [("EncoderChoice.tla", "EncoderChoice.cfg", "EncoderChoice: the subframe / stereo decision rules never exceed verbatim / independent, pick a minimum, are monotone in the switches (all sizes 0..6)"),
            ("EncoderChoice.tla", "EncoderLadder.cfg", "EncoderChoice: the ladder law of the fixed-predictor order selection holds for every cost assignment (sizes 0..3)")],
    # the parameter search of src/rice.rs as written (clamped tables, packed minimiser, merge without re-clamp) against the
    # brute-force meaning, for EVERY input of a scaled-down scope
    "C13": [("RiceSearch.tla", "RiceSearch_small.cfg", "RiceSearch (MP=1, sizes 1..4, 5 values): FinestAgrees, EmittedOptimal, BitsHonest, NeverBelowTruth, TieRule, Separable (true brute force)"),
            ("RiceSearch.tla", "RiceSearch_q.cfg", "RiceSearch (MP=2, sizes 2..8, 2 values, warm-up 0..3, max parameter 0..3): the same invariants"),
            ("RiceSearch.tla", "RiceSearch.cfg", "RiceSearch (MP=2, sizes 2..8, 4 values: 371 704 inputs): the same invariants", "thorough")],
}


def long_digest(prop, tier, seed, res):
    """One real stream with > 0x110000 frames (thorough: > 2^21, i.e. the first 5-byte frame numbers), judged by
    TraceLong.tla from a digest: ALL frame lengths / reported sizes run-length coded + fully parsed sampled frames."""
    out = os.path.join(vlib.WORK, "long", f"{prop}-{tier}.ndjson")
    args = ["long", "--tier", tier, "--seed", seed, "--out", out, "--props", "C01,C02,C04,C05,C08,C09"]
    summ = vlib.run_fv(args, timeout=3000)
    verdicts, states, trans, _ = vlib.run_trace_shards("TraceLong.tla", "TraceLong.cfg", summ["files"], tagp=prop + "long")
    if len(verdicts) != summ["cases"]:
        raise ToolError(f"{summ['cases']} long streams but {len(verdicts)} verdicts")
    ok = 0
    for cid, (v, msgs) in sorted(verdicts.items()):
        mine = [m for m in msgs if m.startswith(prop + ":") or m.startswith("ALL:")]
        if v == "pass" or not mine:
            ok += 1
            continue
        res.failures.append(dict(key=f"{prop} long-stream " + re.sub(r"\d+", "#", mine[0])[:200], what=f"case {cid}: " + "; ".join(mine[:3]), name=cid,
                                 replay=dict(property=prop, kind="long", tier=tier, seed=seed, harness_args=args, case=cid, what=mine[:10])))
    res.coverage["very_long_streams"] = dict(streams=summ["cases"], accepted=ok, detail=summ["samples"],
                                             note="every frame's written length and reported size enters the judgement (run-length coded); "
                                                  "sampled frames (class boundaries, extremes, last, random) are parsed completely by TLC")
    res.coverage["states"] += states
    res.coverage["transitions"] += trans
    res.coverage["traces_validated_against_impl"] += ok
    res.coverage["evaluations"] += sum(x["frames"] for x in summ["samples"])


def tlaps_lemmas(res):
    """spec/ArithLemmas.tla: the scalar arithmetic lemmas of the format (zig-zag fold, mid/side, two's complement,
    Rice split) for ALL integers, checked by the TLA+ proof system (tlapm, SMT back end).  Schemes.tla checks the
    same statements with TLC over finite ranges."""
    import shutil, subprocess
    d = os.path.join(vlib.WORK, "tlaps")
    os.makedirs(d, exist_ok=True)
    shutil.copy(os.path.join(vlib.SPEC, "ArithLemmas.tla"), d)
    try:
        p = subprocess.run(["timeout", "600", "tlapm", "--threads", "8", "ArithLemmas.tla"], cwd=d, stdout=subprocess.PIPE,
                           stderr=subprocess.STDOUT, text=True)
    except FileNotFoundError:
        res.coverage["tlaps_proved_obligations"] = 0
        res.coverage["tlaps_note"] = "tlapm not found - lemmas not re-proved in this run (they do not depend on the code under test)"
        return
    m = re.search(r"All (\d+) obligations proved", p.stdout)
    if not m:
        # the lemmas are about the format's arithmetic, not about the code under test: a proof-tool problem is
        # recorded, it does not decide the property
        open(os.path.join(vlib.WORK, "tlapm_error.txt"), "w").write(p.stdout)
        log("tlapm did not prove spec/ArithLemmas.tla; output in .work/tlapm_error.txt")
        res.coverage["tlaps_proved_obligations"] = 0
        res.coverage["tlaps_note"] = "tlapm run failed - see .work/tlapm_error.txt"
        return
    res.coverage["tlaps_proved_obligations"] = int(m.group(1))
    res.coverage["tlaps_theorems"] = ["FoldNat", "UnfoldFold", "FoldUnfold", "MidSideInvertible", "TwoComplement", "RiceSplit",
                                      "LeftSideInvertible", "RightSideInvertible"]


def seq_protocol_conformance(tier, seed, res):
    """EncoderSeq.tla bound to the code through what a user-written Source observes: the sequence of read_samples
    calls and the result (TraceSeq.tla).  Conformance of the call protocol, not a listed property: a trace the
    machine cannot follow is a MODEL-DIVERGENCE line, the exit code is unaffected."""
    out = os.path.join(vlib.WORK, "seq", f"seq-{tier}.ndjson")
    summ = vlib.run_fv(["seqproto", "--tier", tier, "--out", out])
    r = vlib.run_tlc("TraceSeq.tla", "TraceSeq.cfg", dict(TRACE=out), tag="seqp", workers=1, xmx="2g", timeout=900)
    verdicts = vlib.verdicts_of(r["out"])
    passed = sum(1 for v, _ in verdicts.values() if v == "pass")
    div = [m for v, ms in verdicts.values() if v == "DIVERGED" for m in ms]
    if "Model checking completed. No error has been found." not in r["out"] and not div:
        raise ToolError("TraceSeq: TLC failed without a verdict")
    for m in div[:3]:
        print(f"MODEL-DIVERGENCE property=C03 source-call-protocol {m[:300]}")
    res.coverage["source_call_protocol"] = dict(scenarios=summ["cases"], followed_by_EncoderSeq=passed, diverged=len(div),
                                                note="every read_samples call (argument, result) and the final result of the single-thread entry point "
                                                     "stepped through EncoderSeq.tla's Read / Verify / EncodeAdd / Finish actions")
    res.coverage["states"] += r["states"]
    res.coverage["transitions"] += r["generated"]


def rice_conformance(tier, seed, res):
    """RiceSearch.tla bound to src/rice.rs directly: the parameter search is called through the hook verif::rice_find on
    tie-rich residuals (all on one thread, sizes going up and down); TraceRice.tla predicts order, parameters and bits
    with the search model (TieRule / BitsHonest, real constants).  Not a listed property by itself: MODEL-DIVERGENCE."""
    out = os.path.join(vlib.WORK, f"rice-{tier}")
    import shutil
    shutil.rmtree(out, ignore_errors=True)
    summ = vlib.run_fv(["rice", "--tier", tier, "--seed", seed, "--out", out, "--shards", vlib.JVMS])
    verdicts, states, trans, _ = vlib.run_trace_shards("TraceRice.tla", "TraceRice.cfg", summ["files"], tagp="rice")
    if len(verdicts) != summ["cases"]:
        raise ToolError(f"{summ['cases']} direct search calls but {len(verdicts)} verdicts")
    div = 0
    for cid, (v, msgs) in sorted(verdicts.items()):
        if v != "pass":
            div += 1
            if div <= 5:
                print(f"MODEL-DIVERGENCE property=C13 rice-search case={cid} {' '.join(msgs)[:300]}")
    res.coverage["rice_search_direct_conformance"] = dict(calls=summ["cases"], classes=summ["classes"], accepted_by_TraceRice=summ["cases"] - div,
                                                          diverged=div, panics=summ["panics"])
    res.coverage["states"] += states
    res.coverage["transitions"] += trans


def choice_conformance(tier, seed, res):
    """How the encoder decides (EncoderChoice.tla) against encode_fixed_size_frame under all 8 subsets of the
    switches of a decision.  Not a listed property: mismatches are MODEL-DIVERGENCE lines, exit code unaffected."""
    out = os.path.join(vlib.WORK, f"choice-{tier}")
    summ = vlib.run_fv(["choice", "--tier", tier, "--seed", seed, "--out", out, "--shards", 4])
    verdicts, states, trans, _ = vlib.run_trace_shards("TraceChoice.tla", "TraceChoice.cfg", summ["files"], tagp="choice")
    div = 0
    for cid, (v, msgs) in sorted(verdicts.items()):
        if v != "pass":
            div += 1
            if div <= 5:
                print(f"MODEL-DIVERGENCE property=C09 decision-rule case={cid} {' '.join(msgs)[:300]}")
    for e in summ["errors"][:5]:
        print(f"MODEL-DIVERGENCE property=C09 decision-rule case={e['id']} encode failed: {e['what'][:200]}")
    res.coverage["decision_rule_conformance"] = dict(
        blocks=summ["cases"], stereo=summ["stereo"], subframe=summ["sub"], fixed_order_ladders=summ.get("ladder", 0), runs=8 * summ["cases"], distinct_outcome_patterns=summ["classes"],
        accepted_by_TraceChoice=len(verdicts) - div, diverged=div, encode_errors=len(summ["errors"]),
        note="conformance of the decision rules, not a listed property; never a VIOLATION")
    res.coverage["states"] += states
    res.coverage["transitions"] += trans


def check_stream(prop, tier, seed, only=None, outdir=None, props=None, accept=None):
    res = Result()
    profile, qa, ta = STREAM[prop]
    mc_states = mc_trans = 0
    mc_runs = []
    if not only and props is None:
        for entry in DESIGN_MC.get(prop, []):
            mod, cfg, what = entry[:3]
            if len(entry) > 3 and entry[3] != tier:
                continue
            r = vlib.run_tlc(mod, cfg, tag=f"{prop}mc{mod[:6]}", workers=4, xmx="4g", timeout=1200)
            tlc_ok(r, what)
            mc_states += r["states"]
            mc_trans += r["generated"]
            mc_runs.append(what)
    out = outdir or os.path.join(vlib.WORK, f"{prop}-{tier}")
    import shutil
    shutil.rmtree(out, ignore_errors=True)
    args = ["stream", "--profile", profile, "--props", props or prop, "--tier", tier, "--seed", seed,
            "--out", out, "--shards", vlib.JVMS * (3 if tier == "thorough" else 1)] + (ta if tier == "thorough" else qa)
    if only:
        args += ["--only", only]
    summary = vlib.run_fv(args)
    files = summary["files"]
    verdicts, states, trans, _ = vlib.run_trace_shards("TraceStream.tla", "TraceStream.cfg", files,
                                                       timeout=3600 if tier == "thorough" else 1500, tagp=prop)
    if len(verdicts) != summary["cases"]:
        raise ToolError(f"{summary['cases']} cases driven but {len(verdicts)} verdicts returned by TLC")
    accepted = 0
    skipped = 0
    for cid, (v, msgs) in sorted(verdicts.items()):
        if v == "skip":
            skipped += 1
            continue
        mine = [m for m in msgs if m.startswith(tuple(x + ":" for x in (accept or [prop]))) or m.startswith("ALL:")]
        if not mine:
            accepted += 1
            continue
        lines = vlib.extract_case(files, cid)
        case = json.loads(lines[0]) if lines else {}
        case.pop("bytes", None)
        res.failures.append(dict(
            key=stream_key(prop, case, mine), what=f"case {cid}: " + "; ".join(mine[:3]),
            replay=dict(property=prop, kind="stream", case=cid, seed=seed, tier=tier, harness_args=args,
                        conjuncts=mine, case_header=case),
            trace_lines=lines, name=cid))
    # conformance beyond the listed property: which of several optimal Rice codings is emitted (RiceSearch!TieRule).
    # Not a violation of C13: MODEL-DIVERGENCE lines, exit code unaffected.
    tie_div = 0
    if prop == "C13":
        for cid, (v, msgs) in sorted(verdicts.items()):
            md = [m for m in msgs if m.startswith("MD13:")]
            if md:
                tie_div += 1
                if tie_div <= 5:
                    print(f"MODEL-DIVERGENCE property=C13 rice-tie-rule case={cid} {md[0][:300]}")
    res.coverage = dict(
        states=states + mc_states, transitions=trans + mc_trans, traces_validated_against_impl=accepted,
        design_level_model_checking=mc_runs,
        skipped_oversize_streams=skipped,
        evaluations=summary["cases"], distinct_nontrivial=summary["classes"],
        rule="cases drawn from the generator of DESIGN section 4 (seeded); distinct = distinct class signatures "
             "(channels/width/signal family/mode/default-or-random config/block-size class/length class), counted by the harness; "
             "every case has >= 0 frames decoded sample by sample by FlacFormat.tla in TLC",
        subframe_kinds_and_channel_assignments_seen=summary["kinds"], outcomes=summary["outcomes"],
        samples=summary["samples"],
        checker_cmd="tlc -workers 1 -config TraceStream.cfg TraceStream.tla (one JVM per NDJSON shard, env TRACE)")
    if prop == "C13":
        res.coverage["rice_tie_rule_conformance"] = dict(cases_with_divergence=tie_div,
            what="every emitted residual's partition order and parameters equal the prediction of the search model (finest order, smallest parameter among equal costs)")
    if prop == "C13" and not only and props is None:
        rice_conformance(tier, seed, res)
    if prop == "C01" and not only and props is None:
        tlaps_lemmas(res)
    if prop == "C09" and not only and props is None:
        choice_conformance(tier, seed, res)
    if prop in ("C04", "C08") and not only and props is None:
        long_digest(prop, tier, seed, res)
    if prop == "C03" and not only and props is None:
        seq_protocol_conformance(tier, seed, res)
    if prop == "C03":
        # the hash is fed by a separate thread in the multi-thread encoder: controlled schedules in which that
        # thread is starved (the 16-slot process queue fills up, 17..21 blocks), validated against ParEncoder.tla
        rnd = par_random(tier, seed, False, "C03rnd", res, "C03", 120 if tier == "thorough" else 16, starve_every=2)
        res.coverage["hasher_starving_schedules"] = dict(runs=rnd["runs"], steps=rnd["steps"], accepted_by_TracePar=rnd["accepted"],
                                                         diverged=rnd["diverged"])
        res.coverage["states"] += rnd["states"]
        res.coverage["transitions"] += rnd["transitions"]
        res.coverage["traces_validated_against_impl"] += rnd["accepted"]
    res.assumptions = [
        "FlacFormat.tla is a faithful reading of RFC 9639 (cross-checked against claxon during development)",
        "TLC and the CommunityModules Java overrides evaluate the specification correctly",
        "inputs are sampled from the domain; only the enumerated code spaces are exhaustive",
    ]
    return res


# --------------------------------------------------------------------------- C05 / C06 (par)
PAR_INV = ("TypeOK BufferInOnePlace NoDuplicatesInQueues LockDiscipline FrameNumbering SinkComplete "
           "HashedInOrder NoLeak NoPanic SameKindAsSequential")


def par_cfg(path, Ws, Ns, fails, bads, fills, pqcap=2, props=True, variant="repaired"):
    def tset(xs):
        return "{" + ", ".join(xs) + "}"
    txt = "SPECIFICATION Spec\nCONSTANTS\n"
    txt += f"  Ws = {tset(map(str, Ws))}\n  Ns = {tset(map(str, Ns))}\n  M = 2\n  PQCAP = {pqcap}\n"
    txt += f"  FailAts = {tset(map(str, fails))}\n"
    txt += "  BadSets = " + tset(tset(map(str, b)) for b in bads) + "\n"
    txt += f"  EofFills = {tset('TRUE' if f else 'FALSE' for f in fills)}\n  Variant = \"{variant}\"\n"
    txt += f"INVARIANTS {PAR_INV}\n"
    if props:
        txt += "PROPERTIES Termination AllThreadsEnd\n"
    txt += "CHECK_DEADLOCK FALSE\n"
    open(path, "w").write(txt)
    return path


def tlc_ok(r, what):
    if r["rc"] != 0 or "No error has been found" not in r["out"]:
        save = os.path.join(vlib.WORK, f"tlc_error_{r['tag']}.txt")
        open(save, "w").write(r["out"])
        bad = [l for l in r["out"].splitlines() if "is violated" in l or "Error:" in l][:3]
        raise ToolError(f"TLC run {what} failed (rc={r['rc']}): {bad}; output in {save}")


def par_model_check(tier, faulty, tag):
    """Exhaustive TLC check of ParEncoder.tla (design level).  Returns (states, transitions, scope)."""
    d = os.path.join(vlib.WORK, "parcfg")
    os.makedirs(d, exist_ok=True)
    if faulty:
        scopes = [dict(Ws=[1, 2], Ns=[0, 1, 2], fails=[0, 1, 2, 99], bads=[[], [0], [1], [0, 1]], fills=[True, False])]
        if tier == "thorough":
            scopes += [dict(Ws=[2], Ns=[3], fails=[0, 1, 2, 3, 99], bads=[[], [0], [1], [2], [0, 2], [1, 2]], fills=[True, False]),
                       dict(Ws=[3], Ns=[2, 3], fails=[0, 1, 2, 99], bads=[[], [0], [1]], fills=[True])]
    else:
        scopes = [dict(Ws=[1, 2], Ns=[0, 1, 2, 3], fails=[99], bads=[[]], fills=[True, False])]
        if tier == "thorough":
            scopes += [dict(Ws=[3], Ns=[3, 4], fails=[99], bads=[[]], fills=[True, False]),
                       dict(Ws=[2], Ns=[5], fails=[99], bads=[[]], fills=[True]),
                       dict(Ws=[4], Ns=[2], fails=[99], bads=[[]], fills=[True])]
    states = trans = 0
    for i, sc in enumerate(scopes):
        cfg = par_cfg(os.path.join(d, f"{tag}_mc{i}.cfg"), **sc)
        r = vlib.run_tlc("ParEncoder.tla", cfg, tag=f"{tag}mc{i}", workers=8, xmx="8g", timeout=3000)
        tlc_ok(r, f"ParEncoder {sc}")
        states += r["states"]
        trans += r["generated"]
    return states, trans, scopes


def par_replay(tier, scenarios, tag, res, prop):
    """TLC dumps the state graph of each scenario; every edge is covered by a path; the paths are
    replayed on the real threads under the deterministic scheduler."""
    d = os.path.join(vlib.WORK, "pargraph")
    os.makedirs(d, exist_ok=True)
    tot = dict(edges=0, covered=0, paths=0, steps=0, divergences=0, graph_states=0)
    sample = None
    import subprocess
    for i, sc in enumerate(scenarios):
        cfg = par_cfg(os.path.join(d, f"{tag}_{i}.cfg"), [sc["W"]], [sc["N"]], [sc["fail"]], [sc["bad"]], [sc["fill"]],
                      pqcap=16, props=False)
        dot = os.path.join(d, f"{tag}_{i}.dot")
        r = vlib.run_tlc("ParEncoder.tla", cfg, tag=f"{tag}g{i}", workers=4, xmx="4g", timeout=1500,
                         extra=["-dump", "dot,actionlabels", dot])
        tlc_ok(r, f"graph dump {sc}")
        js = os.path.join(d, f"{tag}_{i}.json")
        g = subprocess.run([sys.executable, os.path.join(vlib.VERIF, "tools", "graph.py"), dot, js,
                            "--max-paths", str(sc.get("max_paths", 0)), "--seed", str(sc.get("seed", 1))],
                           stdout=subprocess.PIPE, text=True)
        if g.returncode != 0:
            raise ToolError("graph.py failed")
        gi = json.loads(g.stdout.strip().splitlines()[-1])
        os.remove(dot)
        args = ["sched-replay", "--paths", js, "--w", sc["W"], "--n", sc["N"],
                "--fail", "none" if sc["fail"] == 99 else sc["fail"], "--bad", ",".join(map(str, sc["bad"])),
                "--eoffill", "true" if sc["fill"] else "false", "--ch", 1 + i % 2, "--last", [32, 17, 1][i % 3]]
        out = vlib.run_fv(args, timeout=3000)
        tot["edges"] += gi["edges"]
        tot["covered"] += gi["covered"]
        tot["graph_states"] += gi["states"]
        tot["paths"] += out["replayed"]
        tot["steps"] += out["steps"]
        tot["divergences"] += out["ndiv"]
        if sample is None and out.get("sample"):
            sample = dict(scenario=sc, **out["sample"])
        for dv in out["divergences"][:3]:
            print(f"MODEL-DIVERGENCE property={prop} scenario={sc} {dv['what'][0][:300]}")
        for v in out["violations"]:
            mine = [w for w in v["what"] if w.startswith(prop)]
            if not mine:
                continue
            res.failures.append(dict(
                key=f"{prop} replay {'; '.join(mine)} scenario W={sc['W']} N={sc['N']} fail={sc['fail']} bad={sc['bad']} fill={sc['fill']}",
                what=f"scenario {sc}: " + "; ".join(mine), name=f"replay-{tag}-{i}-{v['path']}",
                replay=dict(property=prop, kind="sched", harness_args=args, schedule=v["schedule"], case=v["case"], what=mine)))
    return tot, sample


def par_random(tier, seed, faults, tag, res, prop, runs, starve_every=10):
    out = os.path.join(vlib.WORK, "par", f"{tag}.ndjson")
    args = ["sched-random", "--runs", runs, "--seed", seed, "--maxw", 4, "--maxn", 7 if tier == "thorough" else 5,
            "--starve-every", starve_every, "--out", out]
    if not faults:
        args.append("--nofaults")
    summ = vlib.run_fv(args, timeout=3000)
    for v in summ["violations"]:
        mine = [w for w in v["what"] if w.startswith(prop)]
        if mine:
            c = v["case"]
            res.failures.append(dict(
                key=f"{prop} random-schedule {'; '.join(mine)} W={c['workers']} N={c['nblocks']} fail={c['fail_at']} bad={c['bad']} fill={c['fill_at_eof']}",
                what=f"case {c['id']}: " + "; ".join(mine), name=c["id"],
                replay=dict(property=prop, kind="sched", harness_args=args, schedule=v["schedule"], case=c, what=mine)))
    verdicts, states, trans, outs = vlib.run_trace_shards("TracePar.tla", "TracePar.cfg", [out], tagp=tag)
    ok = div = 0
    for cid, (v, msgs) in verdicts.items():
        if v == "pass":
            ok += 1
            continue
        if v == "DIVERGED":
            div += 1
            print(f"MODEL-DIVERGENCE property={prop} case={cid} {' '.join(msgs)[:300]}")
            continue
        mine = [m for m in msgs if m.startswith(prop)]
        if mine:
            res.failures.append(dict(key=f"{prop} trace {'; '.join(mine)}", what=f"case {cid}: " + "; ".join(mine), name=cid,
                                     replay=dict(property=prop, kind="sched", harness_args=args, case=cid, what=mine),
                                     trace_lines=vlib.extract_case([out], cid)))
    return dict(runs=summ["runs"], steps=summ["steps"], classes=summ["classes"], accepted=ok, diverged=div,
                states=states, transitions=trans, samples=summ["samples"])


def par_free(tier, seed, res, prop):
    summ = vlib.run_fv(["par-free", "--seed", seed, "--tier", tier], timeout=3000)
    for v in summ["violations"]:
        mine = [w for w in v["what"] if w.startswith(prop)]
        if mine:
            c = v["case"]
            res.failures.append(dict(
                key=f"{prop} free-run {'; '.join(mine)} env={v.get('env')} W={c['workers']} N={c['nblocks']} fail={c['fail_at']} bad={c['bad']}",
                what=f"case {c['id']} env FLACENC_WORKERS={v.get('env')!r}: " + "; ".join(mine), name=c["id"],
                replay=dict(property=prop, kind="free", case=c, env=v.get("env"), what=mine)))
    return summ


def scenarios_for(prop, tier):
    sc = []
    if prop == "C05":
        sc.append(dict(W=2, N=2, fail=99, bad=[], fill=True, max_paths=0 if tier == "thorough" else 1200))
        sc.append(dict(W=1, N=3, fail=99, bad=[], fill=False))
        sc.append(dict(W=3, N=1, fail=99, bad=[], fill=True, max_paths=0 if tier == "thorough" else 400))
        if tier == "thorough":
            sc.append(dict(W=2, N=3, fail=99, bad=[], fill=True, max_paths=20000))
            sc.append(dict(W=3, N=2, fail=99, bad=[], fill=False, max_paths=20000))
    else:
        cap = 0 if tier == "thorough" else 150
        for fail in (0, 1, 2, 99):
            for bad in ([], [0], [1], [0, 1]):
                if fail == 99 and not bad:
                    continue
                sc.append(dict(W=2, N=2, fail=fail, bad=bad, fill=(fail + len(bad)) % 2 == 0, max_paths=cap))
        for fail, bad in ((0, []), (1, []), (99, [0]), (2, [1]), (3, [0, 2])):
            sc.append(dict(W=1, N=3, fail=fail, bad=bad, fill=True, max_paths=cap))
        if tier == "thorough":
            for fail, bad in ((1, []), (99, [1]), (2, [0])):
                sc.append(dict(W=3, N=2, fail=fail, bad=bad, fill=False, max_paths=8000))
    return sc


def check_par(prop, tier, seed):
    res = Result()
    faulty = prop == "C06"
    states, trans, scopes = par_model_check(tier, faulty, prop)
    rp, sample = par_replay(tier, scenarios_for(prop, tier), prop, res, prop)
    rnd = par_random(tier, seed, faulty, prop + "rnd", res, prop, 2000 if tier == "thorough" else 300)
    free = par_free(tier, seed, res, prop)
    stcov = None
    if prop == "C05":
        # byte equality of the three ways of producing a stream over the input corpus (incl. long streams)
        st = check_stream(prop, tier, seed, props="C05,C01,C04", accept=["C05", "C01", "C04"])
        res.failures += st.failures
        stcov = st.coverage
    res.coverage = dict(
        states=states + rp["graph_states"], transitions=trans + rp["edges"],
        traces_validated_against_impl=rp["paths"] - rp["divergences"] + rnd["accepted"],
        model_check_scopes=scopes,
        graph_edges=rp["edges"], graph_edges_covered_by_replayed_paths=rp["covered"], replayed_paths=rp["paths"],
        replayed_steps=rp["steps"], model_divergences=rp["divergences"] + rnd["diverged"],
        random_schedules=rnd["runs"], random_schedule_steps=rnd["steps"], random_traces_accepted_by_TracePar=rnd["accepted"],
        free_runs=free["runs"], evaluations=rp["paths"] + rnd["runs"] + free["runs"],
        distinct_nontrivial=rnd["classes"] + free["classes"],
        rule="(1) TLC explores ParEncoder.tla exhaustively in the listed scopes (all interleavings, invariants + liveness); "
             "(2) TLC dumps the state graph of small scenarios, graph.py covers every edge with paths, each path is forced "
             "onto the real threads by the deterministic scheduler and the program counter of every thread and the set of "
             "runnable threads are compared with the model at every step; (3) seeded random/PCT schedules of random scenarios "
             "are recorded and validated by TracePar.tla; (4) free-running runs with a watchdog. distinct = distinct "
             "(W, N, fault position, #bad blocks, eof-fill) classes of (3) and (4)",
        samples=[sample] + rnd["samples"][:1] + free.get("samples", [])[:1],
        exhaustive=False)
    if stcov:
        res.coverage["cross_mode_streams"] = stcov["evaluations"]
        res.coverage["cross_mode_streams_accepted"] = stcov["traces_validated_against_impl"]
        res.coverage["traces_validated_against_impl"] += stcov["traces_validated_against_impl"]
        res.coverage["states"] += stcov["states"]
        res.coverage["transitions"] += stcov["transitions"]
        res.coverage["evaluations"] += stcov["evaluations"]
    res.assumptions = [
        "the observation points in par.rs are placed at every blocking operation (a thread that blocks elsewhere is reported as no-progress)",
        "the single-thread entry point is the reference for bytes and error kind",
        "TLC's exhaustive result transfers to the code only as far as the replayed paths / validated traces show conformance",
    ]
    return res


# --------------------------------------------------------------------------- C11 (sinks)
def check_sink(prop, tier, seed):
    import re
    res = Result()
    out = os.path.join(vlib.WORK, f"{prop}-{tier}")
    import shutil
    shutil.rmtree(out, ignore_errors=True)
    args = ["sink", "--tier", tier, "--seed", seed, "--out", out, "--shards", vlib.JVMS * (2 if tier == "thorough" else 1)]
    # design level: the two sink implementations as written (at WORD = 8) refine the ideal bit string, exhaustively for every
    # sequence of three operations
    mc = []
    mstates = mtrans = 0
    for cfg in ("SinkImpl_word_repaired.cfg", "SinkImpl_byte_repaired.cfg"):
        r = vlib.run_tlc("SinkImpl.tla", cfg, tag=prop + cfg[9:13], workers=8, xmx="6g", timeout=1800)
        tlc_ok(r, cfg)
        mstates += r["states"]
        mtrans += r["generated"]
        mc.append(f"{cfg}: {r['states']} states")
    summ = vlib.run_fv(args)
    verdicts, states, trans, _ = vlib.run_trace_shards("TraceSink.tla", "TraceSink.cfg", summ["files"], tagp=prop, timeout=3000)
    states += mstates
    trans += mtrans
    if len(verdicts) != summ["sequences"]:
        raise ToolError(f"{summ['sequences']} sequences driven but {len(verdicts)} verdicts")
    ok = 0
    for sid, (v, msgs) in sorted(verdicts.items()):
        if v == "pass":
            ok += 1
            continue
        first = msgs[0]
        key = f"{prop} sink={sid.split('-')[0]} " + re.sub(r"at offset \d+", "at offset #", first)
        res.failures.append(dict(key=key, what=f"sequence {sid}: {first}", name=sid,
                                 replay=dict(property=prop, kind="sink", seed=seed, tier=tier, sequence=sid, what=msgs),
                                 trace_lines=extract_seq(summ["files"], sid)))
    # one failure per distinct key is enough in the report
    seen, uniq = set(), []
    for f in res.failures:
        if f["key"] not in seen:
            seen.add(f["key"])
            uniq.append(f)
    res.failures = uniq
    res.coverage = dict(states=states, transitions=trans, traces_validated_against_impl=ok,
                        evaluations=summ["sequences"], operations=summ["ops"], distinct_nontrivial=summ["classes"],
                        user_sink_components=summ["components"], panics=summ["panics"], design_level_model_checking=mc,
                        rule="systematic: every start offset 0..63 x operand type u8/u16/u32/u64 x n in 0..=width x msbs/lsbs (+twoc, write, zero runs, "
                             "align, aligned bytes) followed by two further operations, on MemSink<u8> and MemSink<u64>; plus seeded random sequences; "
                             "plus a user-defined sink (required methods only) receiving streams/frames/headers/subframes. distinct = distinct "
                             "(sink kind, operation, operand bytes, n) classes counted by the harness",
                        samples=summ["samples"], exhaustive=False)
    res.assumptions = ["BitSink.tla's Apply/Export is the intended meaning of the trait documentation",
                       "values are random/representative, offsets and widths are exhaustive"]
    return res


def extract_seq(files, sid):
    for f in files:
        keep, on = [], False
        for line in open(f):
            if '"ev":"reset"' in line:
                on = f'"id":"{sid}"' in line
            if on:
                keep.append(line)
                if '"ev":"fin"' in line:
                    return keep
    return []


# --------------------------------------------------------------------------- C12 (failing sinks)
def check_faulty(prop, tier, seed):
    import re, shutil
    res = Result()
    res.level = "fault_enumeration"
    out = os.path.join(vlib.WORK, f"{prop}-{tier}")
    shutil.rmtree(out, ignore_errors=True)
    summ = vlib.run_fv(["faulty", "--tier", tier, "--seed", seed, "--out", out, "--shards", vlib.JVMS])
    verdicts, states, trans, _ = vlib.run_trace_shards("TraceFault.tla", "TraceFault.cfg", summ["files"], tagp=prop, timeout=3000)
    if len(verdicts) != summ["components"]:
        raise ToolError(f"{summ['components']} components driven but {len(verdicts)} verdicts")
    ok = 0
    seen = set()
    for cid, (v, msgs) in sorted(verdicts.items()):
        if v == "pass":
            ok += 1
            continue
        first = sorted(msgs)[0]
        kindc = "stream" if "whole stream" in first else "frame" if re.search(r"frame \d+:", first) else "part"
        key = f"{prop} {kindc}: " + re.sub(r"\d+", "#", re.sub(r"while writing .*?: outcome", "outcome", first))
        if key in seen:
            continue
        seen.add(key)
        res.failures.append(dict(key=key, what=f"component {cid}: {first} ({len(msgs)} failing k)", name=cid,
                                 replay=dict(property=prop, kind="faulty", seed=seed, tier=tier, component=cid, what=msgs[:20])))
    res.coverage = dict(evaluations=summ["tries"], distinct_nontrivial=summ["tries"], components=summ["components"],
                        component_classes=summ["classes"], outcomes=summ["outcomes"],
                        states=states, transitions=trans, traces_validated_against_impl=ok,
                        rule="for every component (whole streams with >= 3 frames and every subframe type, single frames incl. frames with a "
                             "precomputed bitstream, headers, subframes, STREAMINFO) the user sink fails on its k-th operation for every k in "
                             "0..=NOps+1 (strided above 400 operations in the quick tier); every (component, k) pair is a distinct fault position; "
                             "TraceFault.tla judges outcome and prefix",
                        samples=summ["samples"], exhaustive=(tier == "thorough"))
    res.assumptions = ["the fault-free bit string received by the same kind of sink is the reference (validated against the byte sink by C11)"]
    return res


# --------------------------------------------------------------------------- C14 (fill equivalence)
def check_fill(prop, tier, seed):
    import shutil
    res = Result()
    out = os.path.join(vlib.WORK, f"{prop}-{tier}-fill")
    shutil.rmtree(out, ignore_errors=True)
    summ = vlib.run_fv(["fill", "--tier", tier, "--seed", seed, "--out", out, "--shards", vlib.JVMS])
    verdicts, states, trans, _ = vlib.run_trace_shards("TraceFill.tla", "TraceFill.cfg", summ["files"], tagp=prop, timeout=3000)
    if len(verdicts) != summ["cases"]:
        raise ToolError(f"{summ['cases']} fill cases driven but {len(verdicts)} verdicts")
    ok = 0
    import re
    seen = set()
    for cid, (v, msgs) in sorted(verdicts.items()):
        if v == "pass":
            ok += 1
            continue
        first = sorted(msgs)[0]
        key = f"{prop} " + re.sub(r"\d+", "#", first)
        if key in seen:
            continue
        seen.add(key)
        res.failures.append(dict(key=key, what=f"{cid}: {first}", name=cid,
                                 replay=dict(property=prop, kind="fill", seed=seed, tier=tier, case=cid, what=msgs[:10]),
                                 trace_lines=extract_between(summ["files"], "fillcase", cid)))
    # whole streams through both source kinds (single-, multi-thread, frame level)
    st = check_stream(prop, tier, seed, props="C14,C01,C03", accept=["C14", "C01", "C03"])
    res.failures += st.failures
    res.coverage = dict(states=states + st.coverage["states"], transitions=trans + st.coverage["transitions"],
                        traces_validated_against_impl=ok + st.coverage["traces_validated_against_impl"],
                        evaluations=summ["fills"] + st.coverage["evaluations"], fill_cases=summ["cases"], fills=summ["fills"],
                        distinct_nontrivial=summ["classes"] + st.coverage["distinct_nontrivial"],
                        twin_streams=st.coverage["evaluations"],
                        rule="every channel count 1..8 x (bytes per sample, width) in {(1,8),(2,12),(2,16),(3,20),(3,24),(4,32)} x capacity "
                             "{32,33,47} x fill length (all 0..=capacity in the thorough tier, every 4th plus edges in the quick tier): "
                             "full block, shorter block, empty block, short block, through fill_interleaved and fill_le_bytes on separate "
                             "buffers/contexts; TLC decodes a verbatim frame of each buffer and recomputes the MD5; plus whole streams "
                             "encoded with both deliveries (bytes must be identical, decoded by TLC). distinct = (ch, B, width, capacity, "
                             "length class) classes + stream classes",
                        samples=summ["samples"] + st.coverage["samples"][:1], exhaustive=(tier == "thorough"))
    res.assumptions = st.assumptions + ["Fill.tla's FromLE/ToLE is the intended meaning of packed little-endian delivery"]
    return res


def extract_between(files, start_ev, cid):
    for f in files:
        keep, on = [], False
        for line in open(f):
            if f'"ev":"{start_ev}"' in line:
                on = f'"id":"{cid}"' in line
            if on:
                keep.append(line)
                if '"ev":"fin"' in line:
                    return keep
    return []


# --------------------------------------------------------------------------- C07 / C19 (configuration)
def config_gen(tier, tag):
    """TLC enumerates the configuration vectors / TOML documents of Config.tla."""
    d = os.path.join(vlib.WORK, "cfggen")
    os.makedirs(d, exist_ok=True)
    cfg = os.path.join(d, f"{tag}.cfg")
    open(cfg, "w").write("SPECIFICATION Spec\nCONSTANTS\n  Par = TRUE\n  Experimental = FALSE\n  DocMode = \"%s\"\n"
                         "INVARIANTS DefaultIsValid VerdictExplained\nCHECK_DEADLOCK FALSE\n" % ("all" if tier == "thorough" else "pairs"))
    v07, d19 = os.path.join(d, f"{tag}_vec07.ndjson"), os.path.join(d, f"{tag}_doc19.ndjson")
    r = vlib.run_tlc("ConfigGen.tla", cfg, dict(OUT07=v07, OUT19=d19), tag=f"{tag}gen", workers=4, xmx="6g", timeout=3000)
    tlc_ok(r, "ConfigGen")
    return v07, d19, r["states"], r["generated"]


def collect_simple(verdicts, prop, res, kind, extra=None):
    import re
    ok, seen = 0, set()
    for cid, (v, msgs) in sorted(verdicts.items()):
        mine = [m for m in msgs if m.startswith(prop + ":")]
        if v == "pass" or not mine:
            ok += 1
            continue
        key = f"{prop} " + re.sub(r"\d+", "#", mine[0])[:300]
        if key in seen:
            continue
        seen.add(key)
        res.failures.append(dict(key=key, what=f"{cid}: {mine[0]}", name=cid,
                                 replay=dict(property=prop, kind=kind, what=mine[:10], id=cid, **(extra or {}))))
    return ok


def check_c07(prop, tier, seed):
    import shutil
    res = Result()
    v07, d19, gstates, gtrans = config_gen(tier, prop)
    out = os.path.join(vlib.WORK, f"{prop}-{tier}")
    shutil.rmtree(out, ignore_errors=True)
    summ = vlib.run_fv(["cfg07", "--vectors", v07, "--tier", tier, "--seed", seed, "--out", out, "--shards", vlib.JVMS], timeout=3000)
    verdicts, states, trans, _ = vlib.run_trace_shards("TraceConfig.tla", "TraceConfig.cfg", summ["verdict_files"], tagp=prop + "v")
    if len(verdicts) != summ["vectors"]:
        raise ToolError(f"{summ['vectors']} vectors but {len(verdicts)} verdicts")
    ok = collect_simple(verdicts, prop, res, "cfg07", dict(tier=tier, seed=seed))
    # accepted configurations encode the probe corpus without panicking and losslessly (TLC decodes)
    pv, pstates, ptrans, _ = vlib.run_trace_shards("TraceStream.tla", "TraceStream.cfg", summ["probe_files"], tagp=prop + "p", timeout=3000)
    pok = 0
    for cid, (v, msgs) in sorted(pv.items()):
        mine = [m for m in msgs if m.startswith(("C01:", "C02:", "ALL:"))]
        if not mine:
            pok += 1
            continue
        lines = vlib.extract_case(summ["probe_files"], cid)
        case = json.loads(lines[0]) if lines else {}
        case.pop("bytes", None)
        res.failures.append(dict(key=f"{prop} probe " + stream_key(prop, case, mine), what=f"probe {cid} (cfg {case.get('cfg')}): " + "; ".join(mine[:2]),
                                 name=cid, replay=dict(property=prop, kind="cfg07", tier=tier, seed=seed, id=cid, what=mine), trace_lines=lines))
    res.coverage = dict(states=gstates + states + pstates, transitions=gtrans + trans + ptrans,
                        traces_validated_against_impl=ok + pok, evaluations=summ["vectors"] + summ["probe_cases"],
                        vectors=summ["vectors"], accepted_and_valid=summ["accepted"], probe_streams=summ["probe_cases"],
                        distinct_nontrivial=summ["classes"] + summ["probe_cases"],
                        rule="TLC enumerates every configuration with at most two fields at a boundary value (min-1, min, max, max+1, huge; alpha classes "
                             "incl. NaN/inf) from Config.tla; the library's verdict is judged by TraceConfig.tla against Valid(c); a spread of accepted "
                             "vectors encodes a probe corpus (single/multi-thread) whose output TLC decodes (C01/C02 conjuncts). distinct = distinct "
                             "(rejecting clauses, verdict) classes + probe streams",
                        samples=summ["samples"][:2], exhaustive=True)
    res.assumptions = ["Config.tla's Valid is the documented range of every field", "probe inputs are sampled"]
    return res


def check_c19(prop, tier, seed):
    import shutil
    res = Result()
    v07, d19, gstates, gtrans = config_gen(tier, prop)
    out = os.path.join(vlib.WORK, f"{prop}-{tier}")
    shutil.rmtree(out, ignore_errors=True)
    summ = vlib.run_fv(["cfg19", "--vectors", v07, "--docs", d19, "--out", out, "--shards", vlib.JVMS], timeout=3000)
    verdicts, states, trans, _ = vlib.run_trace_shards("TraceConfig.tla", "TraceConfig.cfg", summ["files"], tagp=prop)
    if len(verdicts) != summ["docs"] + summ["roundtrips"]:
        raise ToolError(f"{summ['docs'] + summ['roundtrips']} events but {len(verdicts)} verdicts")
    ok = collect_simple(verdicts, prop, res, "cfg19", dict(tier=tier, seed=seed))
    res.coverage = dict(states=gstates + states, transitions=gtrans + trans, traces_validated_against_impl=ok,
                        evaluations=summ["docs"] + summ["roundtrips"], documents=summ["docs"], roundtrips=summ["roundtrips"],
                        distinct_nontrivial=summ["docs"] + summ["roundtrips"],
                        rule="TLC generates TOML documents = two fully non-default base configurations minus every subset of fields "
                             "(thorough: all 2^17 subsets; quick: empty, singles, pairs, all-but-one, all) with the configuration they must parse to "
                             "(Parse in Config.tla), and every TOML-representable boundary vector for the serialise/parse round trip; the harness "
                             "renders/parses with toml 0.5 and TraceConfig.tla compares. Every document / vector is distinct",
                        samples=summ["samples"][:2], exhaustive=(tier == "thorough"))
    res.assumptions = ["documents are rendered by the harness in the table layout serde expects; `alpha` is only omitted together with its table"]
    return res


# --------------------------------------------------------------------------- C18 / C08 (constructed components)
def run_comp(prop, tier, seed, prefixes, res):
    """Constructor grids -> TraceComp.tla; failures whose message starts with one of `prefixes`."""
    import re, shutil
    out = os.path.join(vlib.WORK, f"{prop}-{tier}-comp")
    shutil.rmtree(out, ignore_errors=True)
    summ = vlib.run_fv(["comp", "--tier", tier, "--seed", seed, "--out", out, "--shards", vlib.JVMS], timeout=3000)
    verdicts, states, trans, _ = vlib.run_trace_shards("TraceComp.tla", "TraceComp.cfg", summ["files"], tagp=prop + "c", timeout=3000)
    if len(verdicts) != summ["events"]:
        raise ToolError(f"{summ['events']} constructor calls driven but {len(verdicts)} verdicts")
    ok, seen = 0, set()
    for cid, (v, msgs) in sorted(verdicts.items()):
        mine = sorted(m for m in msgs if m.startswith(tuple(x + ":" for x in prefixes)))
        if not mine:
            ok += 1
            continue
        # key: the failing call site = constructor name + the kind of complaint, digits normalised
        m0 = mine[0]
        ctor = re.search(r"([A-Za-z]+::new[a-z_]*)\(", " ".join(mine))
        key = f"{prop} {ctor.group(1) if ctor else cid.split('-')[0]}: " + re.sub(r"\d+", "#", m0.split(": ", 1)[1] if ": " in m0 else m0)[:200]
        if key in seen:
            continue
        seen.add(key)
        res.failures.append(dict(key=key, what=f"{cid}: " + " ;; ".join(mine)[:500], name=cid,
                                 replay=dict(property=prop, kind="comp", tier=tier, seed=seed, id=cid, what=mine),
                                 trace_lines=[l for f in summ["files"] for l in open(f) if f'"id":"{cid}"' in l]))
    return summ, states, trans, ok


def check_comp(prop, tier, seed):
    res = Result()
    # C18's statement includes "serialises ... to exactly the number of bits it reports": the size conjuncts that
    # TraceComp labels C08 are judged here as well when the component came out of a constructor
    summ, states, trans, ok = run_comp(prop, tier, seed, [prop, "C08"] if prop == "C18" else [prop], res)
    res.coverage = dict(states=states, transitions=trans, traces_validated_against_impl=ok, evaluations=summ["events"],
                        distinct_nontrivial=summ["classes"], outcomes=summ["outcomes"],
                        rule="grids of consistent and inconsistent arguments for every public constructor (Residual, QuantizedParameters, Constant, "
                             "Verbatim, FixedLpc, Lpc, FrameHeader incl. re-labelled offsets, Frame, StreamInfo, unknown metadata); each call under "
                             "catch_unwind; constructed components are verified, counted, written to MemSink<u8> and MemSink<u64>, parsed back by the "
                             "library and parsed independently by FlacFormat.tla in TLC, which recomputes the size from the structure. distinct = "
                             "distinct (constructor, argument class) signatures",
                        samples=[dict(note="see rule; e.g. Residual::new(order=2, block=64, warmup=2, 1 params, ...) [too few rice parameters]")],
                        exhaustive=False)
    res.assumptions = ["argument grids are hand-picked boundary classes, not exhaustive", "identity after parsing = identical re-serialisation"]
    return res


def builder_conformance(prop, tier, seed, res):
    """StreamBuilder.tla: the component-level assembly API (Stream::new / add_frame / add_metadata_block / STREAMINFO
    setters / write).  BuilderGen.tla (TLC) writes every call sequence of length <= 3 over 28 calls; the harness replays
    them on a real Stream; TraceBuilder.tla steps the model's actions through the record.  C08 (count_bits = bits
    written) is judged; the rest is model conformance (MODEL-DIVERGENCE, exit code unaffected)."""
    r = vlib.run_tlc("StreamBuilderMC.tla", "StreamBuilder.cfg", tag="sbmc", workers=4, xmx="4g", timeout=1200)
    tlc_ok(r, "StreamBuilder: ChainOk, BoundsExact, NoSentinelOnWire over all call sequences of length <= 4")
    d = os.path.join(vlib.WORK, "builder")
    os.makedirs(d, exist_ok=True)
    hist = os.path.join(d, "hist.ndjson")
    g = vlib.run_tlc("BuilderGen.tla", "BuilderGen.cfg", dict(OUTB=hist), tag="sbgen", workers=2, xmx="4g", timeout=1200)
    tlc_ok(g, "BuilderGen")
    args = ["builder", "--hist", hist, "--out", os.path.join(d, f"out-{tier}"), "--stride", 1 if tier == "thorough" else 10, "--shards", vlib.JVMS]
    summ = vlib.run_fv(args, timeout=1200)
    verdicts, states, trans, _ = vlib.run_trace_shards("TraceBuilder.tla", "TraceBuilder.cfg", summ["files"], tagp="sb")
    if len(verdicts) != summ["histories"]:
        raise ToolError(f"{summ['histories']} call sequences but {len(verdicts)} verdicts")
    ok = div = 0
    for cid, (v, msgs) in sorted(verdicts.items()):
        mine = [m for m in msgs if m.startswith(prop + ":")]
        if mine:
            res.failures.append(dict(key=f"{prop} assembly-api " + re.sub(r"\d+", "#", mine[0])[:200], what=f"call sequence {cid}: " + "; ".join(mine[:3]), name=cid,
                                     replay=dict(property=prop, kind="builder", tier=tier, seed=seed, harness_args=args, case=cid, what=mine[:10],
                                                 trace_lines=vlib.extract_case(summ["files"], cid))))
        elif v == "pass":
            ok += 1
        else:
            div += 1
            if div <= 5:
                print(f"MODEL-DIVERGENCE property={prop} assembly-api sequence={cid} {' '.join(msgs)[:300]}")
    res.coverage["assembly_api"] = dict(call_sequences=summ["histories"], calls=summ["calls"], accepted_by_TraceBuilder=ok, diverged=div,
                                        panics=len(summ["panics"]), model_states=r["states"], palette_bs_bytes=summ["palette"])
    res.coverage["states"] += states + r["states"]
    res.coverage["transitions"] += trans + r["generated"]
    res.coverage["traces_validated_against_impl"] += ok
    res.coverage["evaluations"] += summ["calls"]


def check_c08(prop, tier, seed):
    res = check_stream(prop, tier, seed)
    builder_conformance(prop, tier, seed, res)
    summ, states, trans, ok = run_comp(prop, tier, seed, [prop], res)
    res.coverage["states"] += states
    res.coverage["transitions"] += trans
    res.coverage["traces_validated_against_impl"] += ok
    res.coverage["constructed_components"] = summ["events"]
    res.coverage["evaluations"] += summ["events"]
    res.coverage["distinct_nontrivial"] += summ["classes"]
    res.coverage["rule"] += "; plus directly constructed components (constructor grids incl. headers with every UTF-8 length class of frame / sample numbers, re-labelled offsets, residuals with quotient sums around 2^32 counted through a counting sink)"
    return res


# --------------------------------------------------------------------------- C17 (invalid arguments)
def check_c17(prop, tier, seed):
    import shutil, subprocess
    res = Result()
    d = os.path.join(vlib.WORK, "apigen")
    os.makedirs(d, exist_ok=True)
    vec = os.path.join(d, "vec17.ndjson")
    r = vlib.run_tlc("ApiGen.tla", "ApiGen.cfg", dict(OUT17=vec), tag="apigen", workers=4, xmx="4g", timeout=1200)
    tlc_ok(r, "ApiGen")
    out = os.path.join(vlib.WORK, f"{prop}-{tier}")
    shutil.rmtree(out, ignore_errors=True)
    try:
        summ = vlib.run_fv(["api", "--vectors", vec, "--seed", seed, "--out", out, "--shards", vlib.JVMS], timeout=600)
    except subprocess.TimeoutExpired:
        cur = os.path.join(out, "current_call.json")
        call = open(cur).read() if os.path.exists(cur) else "?"
        res.failures.append(dict(key=f"{prop} hang {call}", what=f"C17: call did not return within 600 s (hang): {call}", name="hang",
                                 replay=dict(property=prop, kind="c17", tier=tier, seed=seed, call=call)))
        res.coverage = dict(evaluations=1, distinct_nontrivial=2, rule="aborted by a hang", samples=[call], states=r["states"], transitions=r["generated"],
                            traces_validated_against_impl=0)
        return res
    verdicts, states, trans, _ = vlib.run_trace_shards("TraceApi.tla", "TraceApi.cfg", summ["files"], tagp=prop)
    if len(verdicts) != summ["calls"]:
        raise ToolError(f"{summ['calls']} calls but {len(verdicts)} verdicts")
    ok = collect_simple(verdicts, prop, res, "c17", dict(tier=tier, seed=seed))
    # the same grids against a build with overflow checks and debug assertions (what `cargo test` users run)
    extra = {}
    if tier == "thorough":
        fv2 = vlib.build_harness(target=os.path.join(vlib.HARNESS, "target-checked"),
                                 extra_rustflags="-C debug-assertions=on -C overflow-checks=on")
        out2 = out + "-checked"
        shutil.rmtree(out2, ignore_errors=True)
        summ2 = vlib.run_fv(["api", "--vectors", vec, "--seed", seed, "--out", out2, "--shards", vlib.JVMS], timeout=900, fv=fv2)
        v2, s2, t2, _ = vlib.run_trace_shards("TraceApi.tla", "TraceApi.cfg", summ2["files"], tagp=prop + "k")
        n0 = len(res.failures)
        ok2 = collect_simple(v2, prop, res, "c17", dict(tier=tier, seed=seed, profile="checked"))
        for f in res.failures[n0:]:
            f["key"] += " profile=checked"
        states += s2
        trans += t2
        extra = dict(checked_build_calls=summ2["calls"], checked_build_accepted=ok2)
    res.coverage = dict(states=r["states"] + states, transitions=r["generated"] + trans, traces_validated_against_impl=ok,
                        evaluations=summ["calls"], distinct_nontrivial=summ["calls"], outcome_classes=summ["outcomes"],
                        rule="TLC enumerates from Api.tla the argument vectors of the stream-level and frame-level entry points, FrameBuf::with_size, "
                             "Fill on a FrameBuf and on a Context: every argument from {0, min-1, min, max, max+1, 2^8+k, 2^16+k, 2^32+k, usize::MAX} with "
                             "the others valid, plus pairs, with the verdict (ok / err / either) the specification demands; each vector is one call under "
                             "catch_unwind; TraceApi.tla compares outcome and, for accepted calls, the values stated in the result. Every vector is distinct",
                        samples=[dict(call="stream", ch=258, bps=16, rate=44100, bs=64, expect="err")], exhaustive=True, **extra)
    res.assumptions = ["widths 9/13/17/21/25 and sample rate 0 at stream level are unspecified (either verdict, never a panic)"]
    return res


# --------------------------------------------------------------------------- C02 (stream corpus + header code spaces)
RE_TALLY = None


def check_c02(prop, tier, seed):
    import re, shutil
    res = check_stream(prop, tier, seed)
    out = os.path.join(vlib.WORK, f"{prop}-{tier}-hdr")
    shutil.rmtree(out, ignore_errors=True)
    summ = vlib.run_fv(["headers", "--tier", tier, "--seed", seed, "--out", out, "--shards", vlib.JVMS], timeout=3000)
    verdicts, states, trans, outs = vlib.run_trace_shards("TraceHeader.tla", "TraceHeader.cfg", summ["files"], tagp=prop + "h", timeout=3000)
    judged = 0
    for f, r in outs.items():
        m = re.search(r"TALLY\|(\d+)\|(\d+)", r["out"])
        if not m:
            raise ToolError(f"no tally for {f}")
        judged += int(m.group(1))
    if judged != summ["events"]:
        raise ToolError(f"{summ['events']} header events but {judged} judged")
    seen = set()
    for hid, (v, msgs) in sorted(verdicts.items()):
        mine = sorted(m for m in msgs if m.startswith(("C02:", "C01:")))
        if not mine:
            continue
        key = f"{prop} header " + re.sub(r"\d+", "#", mine[0])
        if key in seen and len(seen) > 0:
            # one replay per kind of complaint, but count them all
            continue
        seen.add(key)
        res.failures.append(dict(key=f"{prop} header {mine[0]}", what=f"{hid}: " + " ;; ".join(mine)[:400], name=hid,
                                 replay=dict(property=prop, kind="c02", tier=tier, seed=seed, id=hid, what=mine),
                                 trace_lines=[l for f in summ["files"] for l in open(f) if f'"id":"{hid}"' in l]))
    res.coverage["states"] += states
    res.coverage["transitions"] += trans
    res.coverage["traces_validated_against_impl"] += judged - len(verdicts)
    res.coverage["header_events"] = summ["events"]
    res.coverage["block_lengths_enumerated"] = summ["block_sizes"]
    res.coverage["sample_rates_enumerated"] = summ["rates"]
    res.coverage["frame_numbers_checked"] = summ["frame_numbers"]
    res.coverage["evaluations"] += summ["events"]
    res.coverage["distinct_nontrivial"] += summ["events"]
    # streams assembled through the component-level API (extra metadata blocks): the chain of last-block flags
    builder_conformance(prop, tier, seed, res)
    res.coverage["rule"] += ("; plus the finite header code spaces through encode_fixed_size_frame: EVERY block length 1..=32767, EVERY sample rate "
                             "1..=96000, frame numbers = all of 0..69631, +-64 (thorough: +-4096) around every 2^k up to 2^31, and 20 000 "
                             "(thorough: 500 000) stratified random values below 2^31 - not all 2^31 (stated limitation); every event distinct")
    return res


# --------------------------------------------------------------------------- C16 (parser robustness)
def check_c16(prop, tier, seed):
    import shutil, re
    res = Result()
    lem = vlib.run_tlc("CrcLemmas.tla", "CrcLemmas.cfg", tag="crclem", workers=1, timeout=600)
    tlc_ok(lem, "CrcLemmas (burst detection of CRC-8 / CRC-16)")
    out = os.path.join(vlib.WORK, f"{prop}-{tier}")
    shutil.rmtree(out, ignore_errors=True)
    summ = vlib.run_fv(["mutate", "--tier", tier, "--seed", seed, "--out", out, "--shards", vlib.JVMS], timeout=3000)
    # spec -> impl: valid streams written by FlacWriter.tla (incl. wasted bits, escaped partitions, 5-bit Rice method, every
    # header code kind; the model-level lemma Parse(Write(d)) = d is checked on the way) through the library's parser
    wg = os.path.join(out, "wgen.ndjson")
    wr = vlib.run_tlc("WriterGen.tla", "WriterGen.cfg", dict(OUTGEN=wg), tag="wgen", workers=8, xmx="6g", timeout=3000)
    tlc_ok(wr, "WriterGen (round-trip lemma of the specification: Parse(Write(d)) = d)")
    wsum = vlib.run_fv(["wgen", "--streams", wg, "--out", os.path.join(out, "wgenout")], timeout=1200)
    verdicts, states, trans, _ = vlib.run_trace_shards("TraceMut.tla", "TraceMut.cfg", summ["files"] + wsum["files"], tagp=prop, timeout=3000)
    states += wr["states"]
    trans += wr["generated"]
    for vid, (v, msgs) in sorted(verdicts.items()):
        for m in msgs:
            if m.startswith("NOTE:"):
                print(f"NOTE property={prop} {vid}: {m[:300]}")
    seen = set()
    ok = 0
    for vid, (v, msgs) in sorted(verdicts.items()):
        mine = sorted(m for m in msgs if m.startswith(("C16:", "harness:")))
        if not mine:
            ok += 1
            continue
        key = f"{prop} " + re.sub(r"\d+", "#", mine[0])[:160]
        if key in seen:
            continue
        seen.add(key)
        res.failures.append(dict(key=key, what=f"{vid}: {mine[0]}", name=vid,
                                 replay=dict(property=prop, kind="c16", tier=tier, seed=seed, id=vid, what=mine)))
    classes = {}
    for s_ in summ["summary"]:
        c = classes.setdefault(s_["class"], dict(total=0, err=0, ok=0, panic=0))
        for k in ("total", "err", "ok", "panic"):
            c[k] += s_[k]
    res.coverage = dict(states=lem["states"] + states, transitions=lem["generated"] + trans, traces_validated_against_impl=ok,
                        evaluations=summ["mutants"], distinct_nontrivial=summ["mutants"], per_class=classes, streams=summ["streams"],
                        spec_written_streams=wsum["tally"],
                        rule="for each of the small emitted streams (one per subframe kind / channel assignment flavour): EVERY single-bit flip, every "
                             "2..8-bit burst pattern with both end bits set at every bit position inside the frames (quick tier: every 5th), truncation at "
                             "EVERY byte, and seeded random byte strings / overwrites; all mutants are distinct; the parser's outcome is tallied under "
                             "catch_unwind, every panic and every accepted mutant goes to TraceMut.tla, where TLC rebuilds the mutated bytes, decodes them "
                             "with FlacFormat and compares the audio; CrcLemmas.tla (65 535 + 255 remainders) shows that every such alteration changes the CRC",
                        samples=summ["summary"][:4], exhaustive=(tier == "thorough"))
    res.assumptions = ["random byte strings and truncations are judged for panics only (the property's acceptance clause is about alterations of up to 8 bits inside a frame)"]
    return res


# --------------------------------------------------------------------------- C10 (history independence)
def check_c10(prop, tier, seed):
    import shutil, re
    res = Result()
    d = os.path.join(vlib.WORK, "histgen")
    os.makedirs(d, exist_ok=True)
    cfg = os.path.join(d, "gen.cfg")
    maxlen = 3
    open(cfg, "w").write('SPECIFICATION Spec\nCONSTANTS\n  Alphabet = {"A","B","C","D","E","F","G","H","I","J","K","L","M","N"}\n'
                         f'  MaxLen = {maxlen}\n  KeyMode = "exact"\nINVARIANTS CacheCoherent\nCHECK_DEADLOCK FALSE\n')
    hist = os.path.join(d, "hist10.ndjson")
    g = vlib.run_tlc("HistoryGen.tla", cfg, dict(OUT10=hist), tag="histgen", workers=4, xmx="4g", timeout=1200)
    tlc_ok(g, "HistoryGen (histories + WindowCache model with the exact key)")
    out = os.path.join(vlib.WORK, f"{prop}-{tier}")
    shutil.rmtree(out, ignore_errors=True)
    summ = vlib.run_fv(["history", "--histories", hist, "--out", out, "--seed", seed, "--shards", vlib.JVMS,
                        "--random", 20000 if tier == "thorough" else 500, "--pairs", "--tier", tier], timeout=3000)
    verdicts, states, trans, _ = vlib.run_trace_shards("TraceHistory.tla", "TraceHistory.cfg", summ["files"], tagp=prop, timeout=3000)
    ok, seen = 0, set()
    for vid, (v, msgs) in sorted(verdicts.items()):
        if v == "pass":
            ok += 1
            continue
        m0 = msgs[0]
        key = f"{prop} " + re.sub(r" as step \d+ of history .*? gives", " gives", m0)
        if key in seen:
            continue
        seen.add(key)
        res.failures.append(dict(key=key, what=f"{vid}: {m0}", name=vid, replay=dict(property=prop, kind="c10", tier=tier, seed=seed, what=msgs)))
    res.coverage = dict(states=g["states"] + states, transitions=g["generated"] + trans, traces_validated_against_impl=ok,
                        evaluations=summ["calls"], histories=summ["histories"], distinct_nontrivial=summ["histories"],
                        rule="TLC generates EVERY history of length <= 3 over an alphabet of 14 calls (stream-level mono/stereo/5-channel at block sizes "
                             "32/64/96/256/4096 and widths 8/12/16/20/24, rectangular / Tukey(0) / Tukey(1e-6) / Tukey(0.4) / Tukey(0.4+2^-20) windows at one "
                             "block size, BitCount, max_parameter 0, frame-level, parse + re-serialise through both sinks, a header write that fails part-way, a stream write into a failing sink) = 2954 histories, plus seeded "
                             "random histories of length 8, plus every ordered pair over a window-cache aliasing alphabet (18 window parameters: rectangular, 0, below/around f32::EPSILON, "
                             "neighbours of 0 / 0.4 / 1 at 1 ulp .. 1e-3; 5 block sizes sharing a 16-sample bucket or differing by one; 2 signals); each history runs on its own long-lived thread, each call also alone on two fresh threads; "
                             "TraceHistory.tla (stateless machine) rejects a result that differs from the fresh-thread result. distinct = histories",
                        samples=[["E", "F"], ["C", "A", "B"]], exhaustive=True)
    res.assumptions = ["the alphabet's calls are representative of the thread-local scratch state (fixed-LPC planes, QLPC buffer, mid/side buffer, window cache, "
                       "Rice finder, CRC sinks)"]
    return res


# --------------------------------------------------------------------------- C20 (feature independence)
FEATURE_SETS = [("none", ""), ("default", "par,log,serde"), ("default+decode", "par,log,serde,decode"),
                ("default+decode+experimental", "par,log,serde,decode,experimental")]


def check_c20(prop, tier, seed):
    import shutil, subprocess
    res = Result()
    res.level = "other"
    h20 = os.path.join(vlib.VERIF, "harness20")
    out = os.path.join(vlib.WORK, f"{prop}-{tier}")
    shutil.rmtree(out, ignore_errors=True)
    os.makedirs(out, exist_ok=True)
    cases = 2000 if tier == "thorough" else 200
    lines = []
    for name, feats in FEATURE_SETS:
        tdir = os.path.join(h20, "target-" + name.replace("+", "_"))
        env = dict(os.environ, CARGO_NET_OFFLINE="true")
        p = subprocess.run(["cargo", "build", "--release", "--offline", "--no-default-features", "--features", feats, "--target-dir", tdir],
                           cwd=h20, env=env, stdout=subprocess.PIPE, stderr=subprocess.STDOUT, text=True)
        if p.returncode != 0:
            log(p.stdout[-3000:])
            raise ToolError(f"build with features [{feats}] failed")
        r = subprocess.run([os.path.join(tdir, "release", "fv20"), name, str(cases), "0"], stdout=subprocess.PIPE, text=True, timeout=1800)
        if r.returncode != 0:
            raise ToolError(f"fv20 [{name}] exited with {r.returncode}")
        got = [json.loads(x) for x in r.stdout.splitlines() if x.strip()]
        # multi-thread cases only exist where the par feature is compiled in
        lines += [g for g in got if not (g["mt"] and "par" not in feats)]
    trace = os.path.join(out, "feat.ndjson")
    with open(trace, "w") as fh:
        for g in lines:
            g.pop("bytes", None)
            fh.write(json.dumps(g) + "\n")
    verdicts, states, trans, _ = vlib.run_trace_shards("TraceFeat.tla", "TraceFeat.cfg", [trace], tagp=prop, timeout=1800)
    ok = 0
    for vid, (v, msgs) in sorted(verdicts.items()):
        if v == "pass":
            ok += 1
            continue
        res.failures.append(dict(key=f"{prop} {vid.split('-')[0]} differs", what=f"{vid}: {msgs[0]}", name=vid,
                                 replay=dict(property=prop, kind="c20", tier=tier, seed=seed, what=msgs)))
    res.failures = res.failures[:10]
    res.coverage = dict(states=states, transitions=trans, traces_validated_against_impl=ok, evaluations=len(lines), distinct_nontrivial=cases,
                        builds=[n for n, _ in FEATURE_SETS], cases_per_build=cases,
                        explanation="differential run: the same fixed corpus through four builds of the library (feature sets none / default / "
                                    "default+decode / default+decode+experimental); TraceFeat.tla demands one digest per case",
                        rule="a fixed corpus (channels 1/2/3/6, all five widths, block sizes 32..576, six signal kinds, non-experimental configurations over "
                             "every section) is encoded by four builds of the library: no features, default, default+decode, default+decode+experimental; "
                             "TraceFeat.tla fixes out[case] by the first build and rejects any other digest. distinct = corpus cases",
                        samples=lines[:2], exhaustive=False)
    res.assumptions = ["multi-thread cases are compared among the builds that have the par feature; C05 ties them to single-thread bytes",
                       "TLA+ contributes only the statement of the property here (said openly in DESIGN.md)"]
    return res


# --------------------------------------------------------------------------- registry
CHECKS = {}
for _p in STREAM:
    CHECKS[_p] = check_stream
CHECKS["C20"] = check_c20
CHECKS["C10"] = check_c10
CHECKS["C16"] = check_c16
CHECKS["C02"] = check_c02
CHECKS["C17"] = check_c17
CHECKS["C18"] = check_comp
CHECKS["C08"] = check_c08
CHECKS["C07"] = check_c07
CHECKS["C19"] = check_c19
CHECKS["C14"] = check_fill
CHECKS["C11"] = check_sink
CHECKS["C12"] = check_faulty
CHECKS["C05"] = check_par
CHECKS["C06"] = check_par


def replay(prop, path):
    payload = json.load(open(path))
    kind = payload.get("kind")
    if kind == "stream":
        # re-encode the same case with the current working tree and validate it again
        r = check_stream(prop, payload.get("tier", "quick"), payload["seed"], only=payload["case"],
                         outdir=os.path.join(vlib.WORK, f"{prop}-replay"))
        return r
    if kind == "c20":
        return check_c20(prop, payload.get("tier", "quick"), payload.get("seed", 1))
    if kind == "c10":
        return check_c10(prop, payload.get("tier", "quick"), payload.get("seed", 1))
    if kind == "c16":
        return check_c16(prop, payload.get("tier", "quick"), payload.get("seed", 1))
    if kind == "c02":
        return check_c02(prop, payload.get("tier", "quick"), payload.get("seed", 1))
    if kind == "c17":
        return check_c17(prop, payload.get("tier", "quick"), payload.get("seed", 1))
    if kind == "comp":
        r = Result()
        run_comp(prop, payload.get("tier", "quick"), payload.get("seed", 1), [prop, "C08"] if prop == "C18" else [prop], r)
        return r
    if kind in ("long", "builder"):
        # re-drive the digest / the assembly-API call sequences on the current working tree
        r = Result()
        r.coverage = dict(states=0, transitions=0, traces_validated_against_impl=0, evaluations=0)
        if kind == "long":
            long_digest(prop, payload.get("tier", "quick"), payload.get("seed", 1), r)
        else:
            builder_conformance(prop, payload.get("tier", "quick"), payload.get("seed", 1), r)
        return r
    if kind == "cfg07":
        return check_c07(prop, payload.get("tier", "quick"), payload.get("seed", 1))
    if kind == "cfg19":
        return check_c19(prop, payload.get("tier", "quick"), payload.get("seed", 1))
    if kind == "faulty":
        r = check_faulty(prop, payload.get("tier", "quick"), payload["seed"])
        return r
    if kind == "sink":
        r = Result()
        trace = payload["trace"]
        verdicts, _, _, _ = vlib.run_trace_shards("TraceSink.tla", "TraceSink.cfg", [trace], tagp="replay")
        print("  note: this replays the recorded trace; re-run the check to re-drive the sinks")
        for sid, (v, msgs) in verdicts.items():
            if v != "pass":
                r.failures.append(dict(key=f"{prop} " + msgs[0], what=msgs[0], name=sid, replay=payload))
        return r
    if kind in ("sched", "free"):
        out = vlib.run_fv(["sched-one", "--file", path], timeout=600)
        r = Result()
        mine = [w for w in out["problems"] if w.startswith(prop)]
        for w in out["problems"]:
            print("  " + w)
        if mine:
            r.failures.append(dict(key=f"{prop} replay {'; '.join(mine)}", what="; ".join(mine), name="replayed",
                                   replay=payload))
        return r
    raise ToolError(f"cannot replay kind {kind!r}")


def main():
    ap = argparse.ArgumentParser()
    ap.add_argument("prop")
    ap.add_argument("--tier", default=os.environ.get("VERIF_TIER", "quick"), choices=["quick", "thorough"])
    ap.add_argument("--replay")
    ap.add_argument("--no-build", action="store_true")
    a = ap.parse_args()
    seed = int(os.environ.get("VERIF_SEED", "1"))
    prop = a.prop
    t0 = time.time()
    try:
        if prop not in CHECKS:
            raise ToolError(f"no check for {prop}")
        vlib.ensure_dirs()
        if not a.no_build:
            vlib.build_harness()
        if a.replay:
            res = replay(prop, a.replay)
        else:
            res = CHECKS[prop](prop, a.tier, seed)
    except ToolError as e:
        print(f"TOOL-ERROR property={prop} {e}")
        sys.exit(2)
    except Exception as e:  # noqa
        import traceback
        traceback.print_exc()
        print(f"TOOL-ERROR property={prop} {type(e).__name__}: {e}")
        sys.exit(2)
    known = vlib.load_known()
    new, seen_known = [], {}
    for f in res.failures:
        k = vlib.match_known(prop, f["key"], known)
        if k:
            seen_known.setdefault(k["key"], (k, f))
        else:
            new.append(f)
    for k, f in seen_known.values():
        print(f"KNOWN-FINDING: property={prop} {k['what']} (e.g. {f['what'][:160]})")
    cov = dict(res.coverage)
    cov["known_findings_reobserved"] = len(seen_known)
    if not a.replay:
        vlib.write_evidence(prop, a.tier, seed, res.level, cov, time.time() - t0, len(new), res.assumptions)
    if new:
        for f in new[:20]:
            path = vlib.write_replay(prop, f.get("name", "case"), f["replay"], f.get("trace_lines"))
            print(f"VIOLATION property={prop} replay={path}")
            print(f"  {f['what'][:400]}")
        if len(new) > 20:
            print(f"  ... and {len(new) - 20} more")
        sys.exit(1)
    print(f"OK property={prop} tier={a.tier} seed={seed} wall={time.time() - t0:.0f}s "
          + " ".join(f"{k}={v}" for k, v in cov.items() if isinstance(v, int)))
    sys.exit(0)


if __name__ == "__main__":
    main()
