#!/bin/bash
# seed_run.sh <seed-name> <property> [tier] : applies a seeded change to /repo, runs the check, undoes it.
set -u
NAME=$1; PROP=$2; TIER=${3:-quick}
cd /verif
git -C /repo diff --quiet || { echo "/repo is dirty"; exit 2; }
git -C /repo apply /verif/seeded/$NAME/patch.diff || { echo "patch does not apply"; exit 2; }
python3 tools/check.py $PROP --tier $TIER > /verif/.work/seed_${NAME}_${PROP}.log 2>&1; RC=$?
git -C /repo checkout -- .
# rebuild the harness from the restored tree so that a later --no-build run does not use the mutated library
(cd /verif/harness && cargo build --release --offline >/dev/null 2>&1)
echo "check $PROP on seed $NAME: exit=$RC"
grep -E "^(VIOLATION|KNOWN|OK|TOOL-ERROR|MODEL-DIVERGENCE)" /verif/.work/seed_${NAME}_${PROP}.log | head -5
grep -E "^  " /verif/.work/seed_${NAME}_${PROP}.log | head -3
# restore the evidence file of the unchanged tree
git -C /verif checkout -- evidence/$PROP.json 2>/dev/null
exit $RC
