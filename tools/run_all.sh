#!/bin/bash
# runs every registered check (quick tier by default) on the current /repo working tree
TIER=${1:-quick}
cd "$(dirname "$0")/.." && mkdir -p .work
# PROPS="C06 C07" restricts the run
for p in ${PROPS:-$(python3 -c "import json;print(' '.join(c['property_id'] for c in json.load(open('MANIFEST.json'))['checks']))")}; do
  s=$(date +%s)
  python3 tools/check.py $p --tier $TIER > .work/all_$p.log 2>&1; rc=$?
  e=$(date +%s)
  echo "$p exit=$rc $((e-s))s $(grep -E '^(OK|VIOLATION|TOOL-ERROR|KNOWN)' .work/all_$p.log | head -1 | cut -c1-150)"
done
