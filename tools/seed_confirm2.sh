#!/bin/bash
# seed_confirm2.sh <worktree> <outdir> <seed-name> <property> : like seed_confirm.sh but safe to run for several
# worktrees at once (no git stash - the stash is shared by all worktrees of a repository; own log files).
set -u
WT=$1; OUT=$2; NAME=$3; PROP=$4
cd "$WT" || exit 2
L=/tmp/seedc_$NAME; mkdir -p $L
DEMO=$(ls tests/demo_*.rs 2>/dev/null | head -1)
[ -z "$DEMO" ] && { echo "$NAME: no demo test"; exit 2; }
T=$(basename "$DEMO" .rs)
F=${SEED_FEATURES:+--features $SEED_FEATURES}
git diff -- src > $L/p.diff
[ -s $L/p.diff ] || { echo "$NAME: no source change"; exit 2; }
cargo test --offline -j 3 $F --test "$T" >$L/with.log 2>&1; W=$?
git checkout -q -- src
cargo test --offline -j 3 $F --test "$T" >$L/without.log 2>&1; WO=$?
git apply $L/p.diff || { echo "$NAME: cannot re-apply"; exit 2; }
mv "$DEMO" $L/demo_aside.rs
cargo test --workspace --no-fail-fast --offline -j 3 >$L/suite.log 2>&1; S=$?
mv $L/demo_aside.rs "$DEMO"
R=$(grep -E "^test result" $L/suite.log | head -2 | tr '\n' ' ')
if [ $W -ne 0 ] && [ $WO -eq 0 ] && [ $S -eq 0 ]; then
  D=/verif/seeded/$NAME; mkdir -p $D
  cp $L/p.diff $D/patch.diff
  cp "$DEMO" $D/
  python3 - "$OUT/meta.json" "$D/meta.json" "$PROP" "${SEED_FEATURES:-}" <<'PY'
import json,sys
try: m=json.load(open(sys.argv[1]))
except Exception: m={}
m["property"]=sys.argv[3]
if sys.argv[4]: m["demo_features"]=sys.argv[4]
m["confirmed"]={"demo_fails_with_change":True,"demo_passes_without_change":True,"existing_tests_pass_with_change":True,
 "how":"tools/seed_confirm2.sh in the sub-agent's scratch worktree: cargo test --test demo (with / without the src change), cargo test --workspace"}
json.dump(m,open(sys.argv[2],"w"),indent=1)
PY
  echo "$NAME: CONFIRMED with=$W without=$WO suite=$S [$R]"
else
  echo "$NAME: NOT CONFIRMED with=$W without=$WO suite=$S [$R]"; exit 1
fi
rm -rf $L
