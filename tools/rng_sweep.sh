#!/bin/bash
# rng_sweep.sh <seed>... : runs the whole quick tier with other VERIF_SEED values on a scratch copy of /verif
# (so that the committed evidence files are untouched); prints every line that is not OK.  Soundness check of the
# machinery itself: on the unchanged tree no seed may raise an alarm.
for S in "$@"; do
  ISO=/tmp/vsweep-$S
  rm -rf $ISO; mkdir -p $ISO
  rsync -a --exclude .git --exclude .work /verif/ $ISO/verif/
  grep -rl '"/verif/' $ISO/verif/harness/src | xargs -r sed -i "s|\"/verif/|\"$ISO/verif/|g"
  (cd $ISO/verif && VERIF_SEED=$S bash tools/run_all.sh quick) > /verif/.work/rng_sweep_$S.log 2>&1
  echo "seed $S: $(grep -c 'exit=0' /verif/.work/rng_sweep_$S.log) of $(grep -c 'exit=' /verif/.work/rng_sweep_$S.log) checks OK"
  grep -v 'exit=0' /verif/.work/rng_sweep_$S.log | grep 'exit=' | cut -c1-200
  for f in $ISO/verif/.work/all_C*.log; do grep -H -E "^(VIOLATION|TOOL-ERROR|  )" $f | head -3 | cut -c1-300; done
  rm -rf $ISO
done
