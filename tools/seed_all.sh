#!/bin/bash
# seed_all.sh : runs every filed seed against the check of its property (isolated copies, /repo untouched);
# prints one line per seed; exit 1 if a seed is no longer caught.
cd /verif; mkdir -p .work
MISS=0
for d in seeded/C*/; do
  n=$(basename $d)
  p=$(python3 -c "import json,sys;print(json.load(open('$d/meta.json'))['property'][:3])")
  out=$(SEED_FROM_HEAD=1 ./tools/seed_run_iso.sh $n $p 2>&1 | head -1)
  echo "$out"
  case "$out" in *"exit=1"*) ;; *) MISS=1;; esac
done
exit $MISS
