"""Shared plumbing for /verif/tools/check.py: building the harness, running TLC shards in
parallel, parsing verdicts, known findings, evidence files.  python3 stdlib only."""
import concurrent.futures as cf
import json
import os
import re
import shutil
import subprocess
import sys
import time

VERIF = os.path.dirname(os.path.dirname(os.path.abspath(__file__)))
SPEC = os.path.join(VERIF, "spec")
HARNESS = os.path.join(VERIF, "harness")
WORK = os.path.join(VERIF, ".work")
FV = os.path.join(HARNESS, "target", "release", "fv")
TLA_CP = "/opt/veriftools/tla/tla2tools.jar:/opt/veriftools/tla/CommunityModules-deps.jar"
JVMS = int(os.environ.get("VERIF_JVMS", "12"))


class ToolError(Exception):
    pass


def log(*a):
    print(*a, file=sys.stderr, flush=True)


def ensure_dirs():
    for d in (WORK, os.path.join(WORK, "tmp"), os.path.join(VERIF, "evidence")):
        os.makedirs(d, exist_ok=True)


def build_harness(features=None, target=None, extra_rustflags=None):
    """cargo build --release of the harness (and therefore of /repo's working tree)."""
    ensure_dirs()
    env = dict(os.environ)
    env["CARGO_NET_OFFLINE"] = "true"
    cmd = ["cargo", "build", "--release", "--offline"]
    if features is not None:
        cmd += ["--no-default-features", "--features", features]
    if target:
        cmd += ["--target-dir", target]
    if extra_rustflags:
        env["RUSTFLAGS"] = "--cfg flacenc_verif --check-cfg cfg(flacenc_verif) " + extra_rustflags
    t0 = time.time()
    p = subprocess.run(cmd, cwd=HARNESS, env=env, stdout=subprocess.PIPE, stderr=subprocess.STDOUT, text=True)
    if p.returncode != 0:
        log(p.stdout[-4000:])
        raise ToolError("harness build failed")
    log(f"[build] ok in {time.time() - t0:.1f}s")
    return os.path.join(target or os.path.join(HARNESS, "target"), "release", "fv")


def run_fv(args, timeout=1800, fv=None, env=None):
    """Runs the harness; returns the parsed JSON summary printed on its last stdout line."""
    e = dict(os.environ)
    if env:
        e.update(env)
    p = subprocess.run([fv or FV] + [str(a) for a in args], stdout=subprocess.PIPE, stderr=subprocess.PIPE,
                       text=True, timeout=timeout, env=e)
    if p.returncode != 0:
        log(p.stderr[-3000:])
        raise ToolError(f"harness exited with {p.returncode}: fv {' '.join(map(str, args))}")
    lines = [x for x in p.stdout.strip().splitlines() if x.strip()]
    return json.loads(lines[-1]) if lines else {}


RE_STATES = re.compile(r"(\d+) states generated, (\d+) distinct states found")
RE_VERDICT = re.compile(r'^"?VERDICT\|([^|]*)\|(pass|FAIL|skip|DIVERGED)\|(.*?)"?$')


def run_tlc(module, cfg, env_extra=None, tag="x", timeout=1800, workers=1, xmx="2g", extra=None, cwd=SPEC):
    """One TLC run; returns dict(rc, out, states, distinct, wall)."""
    meta = os.path.join(WORK, "meta", tag)
    shutil.rmtree(meta, ignore_errors=True)
    os.makedirs(meta, exist_ok=True)
    tmp = os.path.join(WORK, "tmp")
    env = dict(os.environ)
    env.pop("JAVA_TOOL_OPTIONS", None)
    if env_extra:
        env.update({k: str(v) for k, v in env_extra.items()})
    cmd = ["java", "-XX:+UseParallelGC", "-XX:ParallelGCThreads=2", f"-Xmx{xmx}", "-Xss1g", f"-Djava.io.tmpdir={tmp}",
           f"-DTLA-Library={SPEC}",
           "-Dtlc2.tool.queue.IStateQueue=StateDeque", "-cp", TLA_CP, "tlc2.TLC",
           "-workers", str(workers), "-metadir", meta, "-cleanup", "-noGenerateSpecTE",
           "-config", cfg] + (extra or []) + [module]
    t0 = time.time()
    try:
        p = subprocess.run(cmd, cwd=cwd, env=env, stdout=subprocess.PIPE, stderr=subprocess.STDOUT, text=True,
                           timeout=timeout)
        rc, out = p.returncode, p.stdout
    except subprocess.TimeoutExpired as e:
        rc, out = 124, (e.stdout or b"").decode("utf-8", "replace") if isinstance(e.stdout, bytes) else (e.stdout or "")
    shutil.rmtree(meta, ignore_errors=True)
    m = None
    for m in RE_STATES.finditer(out):
        pass
    return dict(rc=rc, out=out, states=int(m.group(2)) if m else 0, generated=int(m.group(1)) if m else 0,
                wall=time.time() - t0, tag=tag)


def verdicts_of(out):
    v = {}
    for line in out.splitlines():
        m = RE_VERDICT.match(line.strip())
        if m:
            msgs = [x.strip() for x in m.group(3).split(";;") if x.strip()]
            v[m.group(1)] = (m.group(2), msgs)
    return v


def run_trace_shards(module, cfg, files, env_extra=None, timeout=1800, tagp="s"):
    """Validates every NDJSON shard with its own single-worker TLC JVM (JVMS at a time).
    Returns (verdicts, states, transitions, outputs).  A shard whose events were not all
    consumed, or that ended in a TLC error, is a tool error (never a verdict)."""
    verdicts, states, trans, outs = {}, 0, 0, {}
    files = [f for f in files if os.path.getsize(f) > 0]

    def one(i_f):
        i, f = i_f
        e = dict(env_extra or {})
        e["TRACE"] = f
        return f, run_tlc(module, cfg, e, tag=f"{tagp}{i}", timeout=timeout)

    with cf.ThreadPoolExecutor(max_workers=JVMS) as ex:
        for f, r in ex.map(one, list(enumerate(files))):
            outs[f] = r
            if r["rc"] != 0 or "UNCONSUMED" in r["out"] or "Model checking completed. No error has been found." not in r["out"]:
                save = os.path.join(WORK, "tlc_error_" + os.path.basename(f) + ".txt")
                with open(save, "w") as fh:
                    fh.write(r["out"])
                raise ToolError(f"TLC did not accept/complete the trace {f} (rc={r['rc']}); output in {save}")
            verdicts.update(verdicts_of(r["out"]))
            states += r["states"]
            trans += r["generated"]
    return verdicts, states, trans, outs


def load_known():
    p = os.path.join(VERIF, "known_findings.json")
    if not os.path.exists(p):
        return []
    return json.load(open(p))


def match_known(prop, key, known):
    """key: string identifying the failing input / call site / history."""
    for k in known:
        if k.get("property") == prop and k.get("status") == "known" and re.search(k["key"], key):
            return k
    return None


def extract_case(files, case_id):
    """Returns the NDJSON lines of one case (for replay files)."""
    for f in files:
        keep, on = [], False
        for line in open(f):
            if '"ev":"case"' in line:
                on = f'"id":"{case_id}"' in line
            if on:
                keep.append(line)
            if on and '"ev":"end"' in line:
                return keep
        if keep:
            return keep
    return []


def write_replay(prop, name, payload, trace_lines=None):
    d = os.path.join(WORK, "replay")
    os.makedirs(d, exist_ok=True)
    safe = re.sub(r"[^A-Za-z0-9_.-]", "_", name)[:80]
    path = os.path.join(d, f"{prop}-{safe}.json")
    if trace_lines is not None:
        tpath = os.path.join(d, f"{prop}-{safe}.ndjson")
        with open(tpath, "w") as fh:
            fh.writelines(trace_lines)
        payload = dict(payload, trace=tpath)
    with open(path, "w") as fh:
        json.dump(payload, fh, indent=1)
    return path


def write_evidence(prop, tier, seed, level, coverage, wall, violations, assumptions):
    ensure_dirs()
    ev = dict(property_id=prop, tier=tier, seed=int(seed), level=level, coverage=coverage,
              assumptions=assumptions, wall_s=round(wall, 2), violations=int(violations))
    p = os.path.join(VERIF, "evidence", f"{prop}.json")
    tmp = p + ".tmp"
    with open(tmp, "w") as fh:
        json.dump(ev, fh, indent=1)
    os.replace(tmp, p)
    return p
