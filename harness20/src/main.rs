//! C20: the same fixed corpus encoded by builds of flacenc with different cargo features.
//! Prints one NDJSON `out` event per case: {"ev":"out","build":..,"case":..,"digest":..,"len":..,"bytes":[..]}
//! (no dependencies besides flacenc itself, so that it builds with every feature set).

use flacenc::bitsink::ByteSink;
use flacenc::component::BitRepr;
use flacenc::config;
use flacenc::error::Verify;
use flacenc::source::MemSource;

/// A source whose length hint does not match what it delivers (a file cut short, a stale header).
struct HintSource {
    inner: MemSource,
    hint: usize,
}
impl flacenc::source::Source for HintSource {
    fn channels(&self) -> usize {
        self.inner.channels()
    }
    fn bits_per_sample(&self) -> usize {
        self.inner.bits_per_sample()
    }
    fn sample_rate(&self) -> usize {
        self.inner.sample_rate()
    }
    fn read_samples<F: flacenc::source::Fill>(&mut self, block_size: usize, dest: &mut F) -> Result<usize, flacenc::error::SourceError> {
        self.inner.read_samples(block_size, dest)
    }
    fn len_hint(&self) -> Option<usize> {
        Some(self.hint)
    }
}

struct Lcg(u64);
impl Lcg {
    fn next(&mut self) -> u64 {
        self.0 = self.0.wrapping_mul(6364136223846793005).wrapping_add(1442695040888963407);
        self.0 >> 33
    }
}

fn fnv(bytes: &[u8]) -> String {
    let mut h: u64 = 0xcbf29ce484222325;
    for b in bytes {
        h ^= *b as u64;
        h = h.wrapping_mul(0x100000001b3);
    }
    format!("{h:016x}")
}

fn main() {
    let args: Vec<String> = std::env::args().collect();
    let build = args.get(1).cloned().unwrap_or_default();
    let cases: usize = args.get(2).and_then(|s| s.parse().ok()).unwrap_or(200);
    let with_bytes: usize = args.get(3).and_then(|s| s.parse().ok()).unwrap_or(40);
    // long streams of equal-sized tiny frames with the *default* configuration (whose `multithread`
    // default depends on the "par" feature): the frames with the last 1-byte / first 2-byte / last
    // 2-byte / first 3-byte frame numbers are the (co-)extreme ones
    for (j, nframes) in [127usize, 128, 129, 130, 2048, 2049].iter().enumerate() {
        for (bps, ch, kind) in [(8usize, 1usize, 0u8), (16, 2, 1)] {
            let bs = 32usize;
            let n = nframes * bs;
            let hi = (1i64 << (bps - 1)) - 1;
            let x: Vec<i32> = (0..n * ch)
                .map(|t| if kind == 0 { 5 } else { (((t / ch) % bs) as i64 * 37 % hi) as i32 })
                .collect();
            let mut cfg = config::Encoder::default();
            cfg.block_size = bs;
            let src = MemSource::from_samples(&x, ch, bps, 44100);
            let out = match cfg.into_verified() {
                Ok(v) => match flacenc::encode_with_fixed_block_size(&v, src, bs) {
                    Ok(s) => {
                        let mut sink = ByteSink::new();
                        match s.write(&mut sink) {
                            Ok(()) => sink.as_slice().to_vec(),
                            Err(_) => b"write error".to_vec(),
                        }
                    }
                    Err(e) => format!("encode error: {e}").into_bytes(),
                },
                Err((_, e)) => format!("config error: {e}").into_bytes(),
            };
            println!(
                "{{\"ev\":\"out\",\"build\":\"{build}\",\"case\":{},\"digest\":\"{}\",\"len\":{},\"mt\":false,\"bytes\":[]}}",
                100000 + j * 10 + kind as usize,
                fnv(&out),
                out.len()
            );
        }
    }
    // pairs of consecutive calls whose analysis windows a too-coarse cache key could confuse, with the
    // DEFAULT `multithread` (serial on this thread without "par", fresh worker threads with it): state
    // carried from one call to the next on a thread makes the builds disagree
    {
        let alphas: [f32; 12] = [-1.0, 0.0, 1e-9, 1e-8, 1.1e-7, 1e-6, 1e-4, 0.4, 0.400_000_04, 0.401, 0.999_999_9, 1.0];
        let bs = 256usize;
        let n = 2 * bs + 40;
        let mut r = Lcg(0xfeed_beef);
        // predictable (LPC is chosen) with loud block edges (the taper of a window matters)
        let x: Vec<i32> = (0..n * 2)
            .map(|t| (((t / 2) as f64 * 0.7 + (t % 2) as f64).cos() * 30000.0) as i32 + (r.next() % 5) as i32 - 2)
            .collect();
        let mut id = 200_000usize;
        for a in 0..alphas.len() {
            for b in 0..alphas.len() {
                if a == b {
                    continue;
                }
                for w in [alphas[a], alphas[b]] {
                    let mut cfg = config::Encoder::default();
                    cfg.block_size = bs;
                    cfg.subframe_coding.qlpc.quant_precision = 15;
                    cfg.subframe_coding.qlpc.lpc_order = 12;
                    cfg.subframe_coding.qlpc.window = if w < 0.0 { config::Window::Rectangle } else { config::Window::Tukey { alpha: w } };
                    let src = MemSource::from_samples(&x, 2, 16, 44100);
                    let out = match cfg.into_verified() {
                        Ok(v) => match flacenc::encode_with_fixed_block_size(&v, src, bs) {
                            Ok(s) => {
                                let mut sink = ByteSink::new();
                                match s.write(&mut sink) {
                                    Ok(()) => sink.as_slice().to_vec(),
                                    Err(_) => b"write error".to_vec(),
                                }
                            }
                            Err(e) => format!("encode error: {e}").into_bytes(),
                        },
                        Err((_, e)) => format!("config error: {e}").into_bytes(),
                    };
                    println!(
                        "{{\"ev\":\"out\",\"build\":\"{build}\",\"case\":{id},\"digest\":\"{}\",\"len\":{},\"mt\":false,\"bytes\":[]}}",
                        fnv(&out),
                        out.len()
                    );
                    id += 1;
                }
            }
        }
    }
    // the block-size ARGUMENT differs from the configuration's own block_size field (the documented examples
    // call it that way: a default configuration with another block size)
    {
        let mut id = 400_000usize;
        for (arg_bs, field_bs, ch, bps) in [(1024usize, 4096usize, 2usize, 16usize), (192, 4096, 1, 8), (4608, 4096, 2, 24), (64, 32767, 3, 12), (4096, 64, 2, 16)] {
            let mut r = Lcg(0xb10c_0000 + id as u64);
            let hi = (1i64 << (bps - 1)) - 1;
            let n = 3 * arg_bs + 7;
            let x: Vec<i32> = (0..n * ch).map(|t| (((t / ch) as f64 * 0.05).sin() * hi as f64 * 0.5) as i32 + (r.next() % 7) as i32 - 3).collect();
            let mut cfg = config::Encoder::default();
            cfg.block_size = field_bs;
            let src = MemSource::from_samples(&x, ch, bps, 44100);
            let out = match cfg.into_verified() {
                Ok(v) => match flacenc::encode_with_fixed_block_size(&v, src, arg_bs) {
                    Ok(s) => {
                        let mut sink = ByteSink::new();
                        match s.write(&mut sink) {
                            Ok(()) => sink.as_slice().to_vec(),
                            Err(_) => b"write error".to_vec(),
                        }
                    }
                    Err(e) => format!("encode error: {e}").into_bytes(),
                },
                Err((_, e)) => format!("config error: {e}").into_bytes(),
            };
            println!(
                "{{\"ev\":\"out\",\"build\":\"{build}\",\"case\":{id},\"digest\":\"{}\",\"len\":{},\"mt\":false,\"bytes\":[]}}",
                fnv(&out),
                out.len()
            );
            id += 1;
        }
    }
    // sources whose length hint over- or under-reports what they deliver, default configuration
    {
        let mut id = 500_000usize;
        for (ch, bps, bs, n, hint) in [(2usize, 16usize, 64usize, 500usize, 600usize), (1, 8, 32, 100, 99), (2, 24, 256, 1000, 5000), (3, 12, 96, 300, 0), (2, 16, 4096, 5000, 6000)] {
            let mut r = Lcg(0x417e_0000 + id as u64);
            let hi = (1i64 << (bps - 1)) - 1;
            let x: Vec<i32> = (0..n * ch).map(|t| (((t / ch) as f64 * 0.07).sin() * hi as f64 * 0.4) as i32 + (r.next() % 5) as i32 - 2).collect();
            let mut cfg = config::Encoder::default();
            cfg.block_size = bs;
            let src = HintSource { inner: MemSource::from_samples(&x, ch, bps, 44100), hint };
            let out = match cfg.into_verified() {
                Ok(v) => match flacenc::encode_with_fixed_block_size(&v, src, bs) {
                    Ok(s) => {
                        let mut sink = ByteSink::new();
                        match s.write(&mut sink) {
                            Ok(()) => sink.as_slice().to_vec(),
                            Err(_) => b"write error".to_vec(),
                        }
                    }
                    Err(e) => format!("encode error: {e}").into_bytes(),
                },
                Err((_, e)) => format!("config error: {e}").into_bytes(),
            };
            println!(
                "{{\"ev\":\"out\",\"build\":\"{build}\",\"case\":{id},\"digest\":\"{}\",\"len\":{},\"mt\":false,\"bytes\":[]}}",
                fnv(&out),
                out.len()
            );
            id += 1;
        }
    }
    // truncated inputs: the interleaved value count is not a multiple of the channel count (a dangling
    // partial inter-channel sample at the end), default configuration
    {
        let mut id = 300_000usize;
        for (ch, bps, bs, frames, dangling) in [(2usize, 16usize, 64usize, 3usize, 1usize), (2, 8, 32, 1, 1), (3, 16, 64, 2, 1), (3, 24, 96, 2, 2), (5, 12, 32, 4, 3), (8, 20, 64, 1, 7), (2, 24, 4096, 1, 1), (6, 16, 256, 2, 5)] {
            for extra_frames in [0usize, 17] {
                let mut r = Lcg(0xabcd_0000 + id as u64);
                let hi = (1i64 << (bps - 1)) - 1;
                let n = frames * bs + extra_frames;
                let x: Vec<i32> = (0..n * ch + dangling).map(|_| ((r.next() % (2 * hi as u64 + 1)) as i64 - hi) as i32 / 3).collect();
                let mut cfg = config::Encoder::default();
                cfg.block_size = bs;
                let src = MemSource::from_samples(&x, ch, bps, 44100);
                let out = match cfg.into_verified() {
                    Ok(v) => match flacenc::encode_with_fixed_block_size(&v, src, bs) {
                        Ok(s) => {
                            let mut sink = ByteSink::new();
                            match s.write(&mut sink) {
                                Ok(()) => sink.as_slice().to_vec(),
                                Err(_) => b"write error".to_vec(),
                            }
                        }
                        Err(e) => format!("encode error: {e}").into_bytes(),
                    },
                    Err((_, e)) => format!("config error: {e}").into_bytes(),
                };
                println!(
                    "{{\"ev\":\"out\",\"build\":\"{build}\",\"case\":{id},\"digest\":\"{}\",\"len\":{},\"mt\":false,\"bytes\":[]}}",
                    fnv(&out),
                    out.len()
                );
                id += 1;
            }
        }
    }
    for i in 0..cases {
        let mut r = Lcg(0x1234_5678 + i as u64 * 7919);
        let ch = [1usize, 2, 2, 3, 6][i % 5];
        let bps = [8usize, 12, 16, 20, 24][(i / 5) % 5];
        let bs = [32usize, 64, 96, 192, 256, 576][(i / 3) % 6];
        let n = bs * (1 + i % 3) + (i * 13) % bs;
        let hi = (1i64 << (bps - 1)) - 1;
        let kind = i % 6;
        let mut x = vec![0i32; n * ch];
        let mut walk = vec![0i64; ch];
        for t in 0..n {
            for c in 0..ch {
                let v: i64 = match kind {
                    0 => ((t as f64 * 0.05 * (c + 1) as f64).sin() * hi as f64 * 0.7) as i64 + (r.next() % 5) as i64 - 2,
                    1 => (r.next() % (2 * hi as u64 + 1)) as i64 - hi,
                    2 => if (t / 3) % 2 == 0 { hi } else { -hi },
                    3 => 1234 % (hi + 1),
                    4 => {
                        walk[c] = (walk[c] + (r.next() % 2001) as i64 - 1000).clamp(-hi, hi);
                        walk[c]
                    }
                    _ => if t == n / 2 { hi } else { 0 },
                };
                x[t * ch + c] = v.clamp(-hi - 1, hi) as i32;
            }
        }
        let mut cfg = config::Encoder::default();
        cfg.block_size = bs;
        // the default of `multithread` depends on the "par" feature: both settings are exercised where possible
        cfg.multithread = cfg!(feature = "par") && i % 2 == 1;
        cfg.workers = std::num::NonZeroUsize::new(1 + i % 3);
        cfg.subframe_coding.use_lpc = i % 7 != 3;
        cfg.subframe_coding.qlpc.lpc_order = 1 + (i * 5) % 24;
        cfg.subframe_coding.qlpc.quant_precision = 3 + i % 13;
        cfg.subframe_coding.fixed.max_order = i % 5;
        cfg.subframe_coding.fixed.order_sel = if i % 4 == 0 { config::OrderSel::BitCount } else { config::OrderSel::ApproxEnt { partitions: 1 + i % 64 } };
        cfg.subframe_coding.prc.max_parameter = [14usize, 14, 7, 0, 3][i % 5];
        cfg.subframe_coding.qlpc.window = if i % 3 == 0 { config::Window::Rectangle } else { config::Window::Tukey { alpha: (i % 11) as f32 / 10.0 } };
        cfg.stereo_coding.use_midside = i % 4 != 1;
        // a build with experimental options may have USED them earlier on this thread (an application that offers
        // both): every third case is preceded by an encode of the same audio with the experimental estimators
        // enabled (variants of both options), whose output is discarded; the plain configuration that follows must
        // still give the bytes every other build gives
        #[cfg(feature = "experimental")]
        if i % 3 == 2 {
            let mut pre = cfg.clone();
            pre.multithread = false;
            pre.subframe_coding.use_lpc = true;
            pre.subframe_coding.qlpc.use_direct_mse = i % 2 == 0 || i % 5 == 0;
            pre.subframe_coding.qlpc.mae_optimization_steps = [2usize, 0, 5, 1][(i / 3) % 4];
            if !pre.subframe_coding.qlpc.use_direct_mse && pre.subframe_coding.qlpc.mae_optimization_steps == 0 {
                pre.subframe_coding.qlpc.use_direct_mse = true;
            }
            if let Ok(v) = pre.into_verified() {
                let _ = flacenc::encode_with_fixed_block_size(&v, MemSource::from_samples(&x, ch, bps, 44100), bs);
            }
        }
        let src = MemSource::from_samples(&x, ch, bps, 44100);
        let out = match cfg.into_verified() {
            Ok(v) => match flacenc::encode_with_fixed_block_size(&v, src, bs) {
                Ok(s) => {
                    let mut sink = ByteSink::new();
                    match s.write(&mut sink) {
                        Ok(()) => sink.as_slice().to_vec(),
                        Err(_) => b"write error".to_vec(),
                    }
                }
                Err(e) => format!("encode error: {e}").into_bytes(),
            },
            Err((_, e)) => format!("config error: {e}").into_bytes(),
        };
        let bytes = if i < with_bytes { format!("{:?}", out) } else { "[]".to_string() };
        println!(
            "{{\"ev\":\"out\",\"build\":\"{build}\",\"case\":{i},\"digest\":\"{}\",\"len\":{},\"mt\":{},\"bytes\":{}}}",
            fnv(&out),
            out.len(),
            i % 2 == 1,
            bytes.replace(' ', "")
        );
    }
}
