//! C11 / C12 drivers: operation sequences on the in-memory sinks, user-defined sinks that
//! record what they receive, and sinks that fail on their k-th operation.

use crate::enc::{self, Mode, Outcome, VecSource};
use crate::gen::{self, Cfg, Geometry};
use crate::trace::Shards;
use crate::Args;
use flacenc::bitsink::{BitSink, ByteSink, MemSink};
use flacenc::component::{BitRepr, Stream};
use rand::Rng;
use serde_json::{json, Value};
use std::collections::BTreeSet;
use std::panic::{catch_unwind, AssertUnwindSafe};
use std::path::PathBuf;

#[derive(Clone, Debug)]
pub enum Op {
    Write { w: usize, v: u64 },
    Msbs { w: usize, v: u64, n: usize },
    Lsbs { w: usize, v: u64, n: usize },
    Twoc { w: usize, v: i64, n: usize },
    Zeros { n: usize },
    Align,
    Bytes { b: Vec<u8> },
}

fn be_bytes(v: u64, w: usize) -> Vec<u8> {
    v.to_be_bytes()[8 - w / 8..].to_vec()
}

impl Op {
    fn describe(&self) -> (String, Vec<u8>, usize) {
        match self {
            Op::Write { w, v } => ("write".into(), be_bytes(*v, *w), *w),
            Op::Msbs { w, v, n } => ("msbs".into(), be_bytes(*v, *w), *n),
            Op::Lsbs { w, v, n } => ("lsbs".into(), be_bytes(*v, *w), *n),
            Op::Twoc { v, n, .. } => ("twoc".into(), (*v as u64).to_be_bytes().to_vec(), *n),
            Op::Zeros { n } => ("zeros".into(), vec![], *n),
            Op::Align => ("align".into(), vec![], 0),
            Op::Bytes { b } => ("bytes".into(), b.clone(), 0),
        }
    }

    /// Applies the operation; returns the padding count for align/bytes, -1 otherwise.
    fn apply<S: BitSink>(&self, s: &mut S) -> i64 {
        macro_rules! typed {
            ($w:expr, $v:expr, |$x:ident| $body:expr) => {
                match $w {
                    8 => {
                        let $x = $v as u8;
                        $body
                    }
                    16 => {
                        let $x = $v as u16;
                        $body
                    }
                    32 => {
                        let $x = $v as u32;
                        $body
                    }
                    _ => {
                        let $x = $v as u64;
                        $body
                    }
                }
            };
        }
        match self {
            Op::Write { w, v } => {
                typed!(*w, *v, |x| s.write(x).ok());
                -1
            }
            Op::Msbs { w, v, n } => {
                typed!(*w, *v, |x| s.write_msbs(x, *n).ok());
                -1
            }
            Op::Lsbs { w, v, n } => {
                typed!(*w, *v, |x| s.write_lsbs(x, *n).ok());
                -1
            }
            Op::Twoc { w, v, n } => {
                match w {
                    8 => s.write_twoc(*v as i8, *n).ok(),
                    16 => s.write_twoc(*v as i16, *n).ok(),
                    32 => s.write_twoc(*v as i32, *n).ok(),
                    _ => s.write_twoc(*v, *n).ok(),
                };
                -1
            }
            Op::Zeros { n } => {
                s.write_zeros(*n).ok();
                -1
            }
            Op::Align => s.align_to_byte().map(|x| x as i64).unwrap_or(-2),
            Op::Bytes { b } => s.write_bytes_aligned(b).map(|x| x as i64).unwrap_or(-2),
        }
    }
}

trait Inspect {
    fn bitlen(&self) -> usize;
    fn store(&self) -> Vec<u8>;
    /// cross-check of the other observers against the storage: to_bitstring / write_to_byte_slice
    fn observers_agree(&self) -> bool;
}

impl Inspect for MemSink<u8> {
    fn bitlen(&self) -> usize {
        self.len()
    }
    fn store(&self) -> Vec<u8> {
        self.as_slice().to_vec()
    }
    fn observers_agree(&self) -> bool {
        observers_agree(self.len(), &self.store(), &self.to_bitstring(), 8, |d| self.write_to_byte_slice(d))
    }
}

impl Inspect for MemSink<u64> {
    fn bitlen(&self) -> usize {
        self.len()
    }
    fn store(&self) -> Vec<u8> {
        self.as_slice().iter().flat_map(|w| w.to_be_bytes()).collect()
    }
    fn observers_agree(&self) -> bool {
        observers_agree(self.len(), &self.store(), &self.to_bitstring(), 64, |d| self.write_to_byte_slice(d))
    }
}

/// `to_bitstring` shows the written bits (then '*' padding) and `write_to_byte_slice` exports
/// the storage big-endian, also into a shorter destination.
fn observers_agree(len: usize, store: &[u8], bitstring: &str, word: usize, export: impl Fn(&mut [u8])) -> bool {
    let mut bits = String::new();
    for b in store {
        bits.push_str(&format!("{b:08b}"));
    }
    let shown: String = bitstring.chars().filter(|c| *c != '_').collect();
    let total = (len + word - 1) / word * word;
    if shown.len() != total || store.len() * 8 != total {
        return false;
    }
    if shown[..len] != bits[..len] || shown[len..].chars().any(|c| c != '*') {
        return false;
    }
    let mut full = vec![0u8; store.len()];
    export(&mut full);
    if full != store {
        return false;
    }
    let short = (len + 7) / 8;
    let mut part = vec![0u8; short];
    export(&mut part);
    part[..] == store[..short]
}

fn run_sequence<S: BitSink + Inspect>(mut sink: S, kind: &str, id: &str, ops: &[Op]) -> (Vec<Value>, bool) {
    let mut lines = vec![json!({"ev": "reset", "sink": kind, "id": id})];
    let mut panicked = false;
    for op in ops {
        let (name, v, n) = op.describe();
        let r = catch_unwind(AssertUnwindSafe(|| op.apply(&mut sink)));
        match r {
            Ok(ret) => {
                let agree = sink.observers_agree();
                lines.push(json!({"ev": "op", "op": name, "v": v, "n": n, "ret": ret, "len": sink.bitlen(),
                                  "store": if agree { sink.store() } else { vec![255u8; 1] }, "panic": false,
                                  "observers": agree}));
            }
            Err(_) => {
                lines.push(json!({"ev": "op", "op": name, "v": v, "n": n, "ret": -1, "len": 0, "store": [], "panic": true,
                                  "observers": true}));
                panicked = true;
                break;
            }
        }
    }
    lines.push(json!({"ev": "fin"}));
    (lines, panicked)
}

const PAT: [u64; 4] = [u64::MAX, 0xAAAA_AAAA_AAAA_AAAA, 0x0123_4567_89AB_CDEF, 0x8000_0000_0000_0001];

fn mask(v: u64, w: usize) -> u64 {
    if w == 64 {
        v
    } else {
        v & ((1u64 << w) - 1)
    }
}

/// Systematic sequences: preamble to reach every offset, the operation under test, two follow-ups.
pub fn systematic(thorough: bool, seed: u64) -> Vec<Vec<Op>> {
    let mut seqs = vec![];
    let mut rng = gen::rng_for(seed, 4242);
    let mut i = 0usize;
    for off in 0..64usize {
        let pre: Vec<Op> = if off == 0 { vec![] } else { vec![Op::Lsbs { w: 64, v: PAT[off % 4], n: off }] };
        let follow = |k: usize| -> Vec<Op> {
            match k % 4 {
                0 => vec![Op::Lsbs { w: 8, v: 0xA5, n: 3 }, Op::Align],
                1 => vec![Op::Msbs { w: 16, v: 0xF00F, n: 16 }, Op::Bytes { b: vec![0x5A] }],
                2 => vec![Op::Zeros { n: 1 }, Op::Write { w: 8, v: 0xFF }],
                _ => vec![Op::Twoc { w: 16, v: -2, n: 5 }, Op::Lsbs { w: 64, v: u64::MAX, n: 64 }],
            }
        };
        for &w in &[8usize, 16, 32, 64] {
            for n in 0..=w {
                for opk in 0..2 {
                    let vals: Vec<u64> = if thorough { vec![PAT[0], PAT[1], rng.gen()] } else { vec![[PAT[0], PAT[1], rng.gen()][i % 3]] };
                    for v in vals {
                        let v = mask(v, w);
                        let op = if opk == 0 { Op::Msbs { w, v, n } } else { Op::Lsbs { w, v, n } };
                        let mut s = pre.clone();
                        s.push(op);
                        s.extend(follow(i));
                        seqs.push(s);
                        i += 1;
                    }
                }
                if n >= 1 {
                    let v: i64 = match i % 3 {
                        0 => -1,
                        1 => -(1i64 << (n - 1).min(62)),
                        _ => (1i64 << (n - 1).min(62)) - 1,
                    };
                    let mut s = pre.clone();
                    s.push(Op::Twoc { w, v, n });
                    s.extend(follow(i));
                    seqs.push(s);
                    i += 1;
                }
            }
            let mut s = pre.clone();
            s.push(Op::Write { w, v: mask(PAT[i % 4], w) });
            s.extend(follow(i));
            seqs.push(s);
            i += 1;
        }
        for n in [0usize, 1, 7, 8, 9, 63, 64, 65, 127, 128, 129, 200, 1000] {
            let mut s = pre.clone();
            s.push(Op::Zeros { n });
            s.extend(follow(i));
            seqs.push(s);
            i += 1;
        }
        for blen in 0..3usize {
            let mut s = pre.clone();
            s.push(Op::Align);
            s.push(Op::Bytes { b: (0..blen).map(|k| 0x81 + k as u8).collect() });
            s.extend(follow(i));
            seqs.push(s);
            i += 1;
        }
        // byte slices from THIS (possibly unaligned) cursor: lengths around the storage word (8 bytes)
        // and its multiples, so that a slice crosses none / one / several word boundaries
        let lens: Vec<usize> = if thorough {
            (0..=41).collect()
        } else {
            let all = [0usize, 1, 2, 3, 6, 7, 8, 9, 10, 14, 15, 16, 17, 18, 23, 24, 25, 31, 32, 33, 40, 41];
            (0..6).map(|k| all[(off * 5 + k * 4) % all.len()]).collect()
        };
        for blen in lens {
            let mut s = pre.clone();
            s.push(Op::Bytes { b: (0..blen).map(|k| (0x81 + 37 * k) as u8).collect() });
            s.extend(follow(i));
            seqs.push(s);
            i += 1;
        }
    }
    seqs
}

pub fn random_sequences(count: usize, len: usize, seed: u64) -> Vec<Vec<Op>> {
    let mut rng = gen::rng_for(seed, 777);
    (0..count)
        .map(|_| {
            (0..len)
                .map(|_| {
                    let w = [8usize, 16, 32, 64][rng.gen_range(0..4)];
                    let v = mask(rng.gen(), w);
                    match rng.gen_range(0..8) {
                        0 => Op::Write { w, v },
                        1 | 2 => Op::Msbs { w, v, n: rng.gen_range(0..=w) },
                        3 | 4 => Op::Lsbs { w, v, n: rng.gen_range(0..=w) },
                        5 => {
                            let n = rng.gen_range(1..=w);
                            Op::Twoc { w, v: rng.gen_range(-(1i64 << (n - 1).min(62))..(1i64 << (n - 1).min(62))), n }
                        }
                        6 => Op::Zeros { n: rng.gen_range(0..150) },
                        _ => {
                            if rng.gen_bool(0.5) {
                                Op::Align
                            } else {
                                Op::Bytes { b: (0..[rng.gen_range(0..4), rng.gen_range(0..40)][rng.gen_range(0..2)]).map(|_| rng.gen()).collect() }
                            }
                        }
                    }
                })
                .collect()
        })
        .collect()
}

// ------------------------------------------------------------------ user-defined sinks

#[derive(Debug)]
pub struct SinkFailure(pub usize);
impl std::fmt::Display for SinkFailure {
    fn fmt(&self, f: &mut std::fmt::Formatter<'_>) -> std::fmt::Result {
        write!(f, "sink failed at operation {}", self.0)
    }
}
impl std::error::Error for SinkFailure {}

/// The error type of a user sink is the user's choice: one that carries data, a field-less (zero-sized)
/// one, `std::io::Error`.
pub trait ErrKind: std::error::Error + Sized + 'static {
    fn make(k: usize) -> Self;
}
impl ErrKind for SinkFailure {
    fn make(k: usize) -> Self {
        SinkFailure(k)
    }
}
/// A field-less error type (zero-sized, but inhabited).
#[derive(Debug)]
pub struct SinkFull;
impl std::fmt::Display for SinkFull {
    fn fmt(&self, f: &mut std::fmt::Formatter<'_>) -> std::fmt::Result {
        write!(f, "sink full")
    }
}
impl std::error::Error for SinkFull {}
impl ErrKind for SinkFull {
    fn make(_k: usize) -> Self {
        SinkFull
    }
}
impl ErrKind for std::io::Error {
    fn make(k: usize) -> Self {
        std::io::Error::new(std::io::ErrorKind::WriteZero, format!("sink failed at operation {k}"))
    }
}

/// Implements only the four required methods; records every call; fails on call `fail_at`.
pub struct UserSinkG<E> {
    pub bits: Vec<bool>,
    pub calls: Vec<Value>,
    pub ncalls: usize,
    pub fail_at: Option<usize>,
    pub record: bool,
    _e: std::marker::PhantomData<E>,
}
pub type UserSink = UserSinkG<SinkFailure>;

impl<E: ErrKind> UserSinkG<E> {
    pub fn new(fail_at: Option<usize>, record: bool) -> Self {
        UserSinkG { bits: vec![], calls: vec![], ncalls: 0, fail_at, record, _e: std::marker::PhantomData }
    }
    fn tick(&mut self) -> Result<(), E> {
        let k = self.ncalls;
        self.ncalls += 1;
        if self.fail_at == Some(k) {
            Err(E::make(k))
        } else {
            Ok(())
        }
    }
    fn push_bits(&mut self, v: u64, w: usize, from: usize, n: usize) {
        // bits [from, from+n) of the w-bit value v, MSB first
        for i in from..from + n {
            self.bits.push((v >> (w - 1 - i)) & 1 == 1);
        }
    }
    pub fn bytes(&self) -> Vec<u8> {
        let mut out = vec![0u8; (self.bits.len() + 7) / 8];
        for (i, b) in self.bits.iter().enumerate() {
            if *b {
                out[i / 8] |= 0x80 >> (i % 8);
            }
        }
        out
    }
}

impl<E: ErrKind> BitSink for UserSinkG<E> {
    type Error = E;
    fn align_to_byte(&mut self) -> Result<usize, Self::Error> {
        self.tick()?;
        let pad = (8 - self.bits.len() % 8) % 8;
        for _ in 0..pad {
            self.bits.push(false);
        }
        if self.record {
            self.calls.push(json!({"ev": "op", "op": "align", "v": [], "n": 0, "ret": pad, "len": self.bits.len(), "store": [], "panic": false, "observers": true}));
        }
        Ok(pad)
    }
    fn write_lsbs<T: flacenc::bitsink::Bits>(&mut self, val: T, n: usize) -> Result<(), Self::Error> {
        self.tick()?;
        let w = std::mem::size_of::<T>() * 8;
        let v: u64 = val.into();
        self.push_bits(v, w, w - n, n);
        if self.record {
            self.calls.push(json!({"ev": "op", "op": "lsbs", "v": be_bytes(v, w), "n": n, "ret": -1, "len": self.bits.len(), "store": [], "panic": false, "observers": true}));
        }
        Ok(())
    }
    fn write_msbs<T: flacenc::bitsink::Bits>(&mut self, val: T, n: usize) -> Result<(), Self::Error> {
        self.tick()?;
        let w = std::mem::size_of::<T>() * 8;
        let v: u64 = val.into();
        self.push_bits(v, w, 0, n);
        if self.record {
            self.calls.push(json!({"ev": "op", "op": "msbs", "v": be_bytes(v, w), "n": n, "ret": -1, "len": self.bits.len(), "store": [], "panic": false, "observers": true}));
        }
        Ok(())
    }
    fn write<T: flacenc::bitsink::Bits>(&mut self, val: T) -> Result<(), Self::Error> {
        self.tick()?;
        let w = std::mem::size_of::<T>() * 8;
        let v: u64 = val.into();
        self.push_bits(v, w, 0, w);
        if self.record {
            self.calls.push(json!({"ev": "op", "op": "write", "v": be_bytes(v, w), "n": w, "ret": -1, "len": self.bits.len(), "store": [], "panic": false, "observers": true}));
        }
        Ok(())
    }
}

/// Small streams that contain every subframe kind and several frames.
pub fn component_streams(seed: u64, count: usize) -> Vec<(String, Stream)> {
    let mut out = vec![];
    let fams = ["sine", "noise_lo", "dc", "noise_full", "ramp", "silence", "impulse", "cauchy"];
    for i in 0..count {
        let mut rng = gen::rng_for(seed, 9000 + i as u64);
        let ch = [1usize, 2, 2, 3][i % 4];
        let bps = gen::WIDTHS[i % 5];
        let bs = [64usize, 96, 128, 192][i % 4];
        let n = bs * 2 + [0usize, 5, 40, 17][i % 4];
        let fam = fams[i % fams.len()];
        let mut cfg = Cfg { block_size: bs, ..Cfg::default() };
        cfg.lpc_order = 1 + i % 8;
        cfg.use_lpc = i % 3 != 2;
        cfg.use_fixed = i % 5 != 4;
        let g = Geometry { ch, bps, rate: 44100, bs, n };
        let chans = gen::signal(&mut rng, fam, gen::RELATIONS[i % 5], ch, bps, n);
        let src = VecSource::new(&g, gen::interleave(&chans));
        if let Outcome::Ok(s) = enc::encode(&cfg, src, if i % 2 == 0 { &Mode::St } else { &Mode::Mt(2) }) {
            out.push((format!("stream {i}: {ch}ch {bps}bit {fam} bs{bs} n{n} {}", if i % 2 == 0 { "st" } else { "mt (precomputed frames)" }), s));
        }
    }
    out
}

pub fn cmd_sink(a: &Args) {
    let thorough = a.get("tier", "quick") == "thorough";
    let seed = a.num("seed", 1);
    let out = PathBuf::from(a.get("out", "/verif/.work/sink"));
    let shards = a.num("shards", 12) as usize;
    let mut sh = Shards::new(&out, "sink");
    let mut seqs = systematic(thorough, seed);
    seqs.extend(random_sequences(if thorough { 60000 } else { 3000 }, 12, seed));
    let mut nseq = 0usize;
    let mut nops = 0usize;
    let mut panics = 0usize;
    let mut classes = BTreeSet::new();
    let mut samples = vec![];
    for (i, ops) in seqs.iter().enumerate() {
        for kind in ["u8", "u64"] {
            let id = format!("{kind}-{i}");
            let (lines, p) = if kind == "u8" {
                run_sequence(MemSink::<u8>::new(), kind, &id, ops)
            } else {
                run_sequence(MemSink::<u64>::new(), kind, &id, ops)
            };
            nseq += 1;
            nops += lines.len() - 2;
            panics += p as usize;
            for op in ops {
                let (name, v, n) = op.describe();
                classes.insert(format!("{kind}/{name}/{}/{}", v.len(), n.min(66)));
            }
            if samples.len() < 2 {
                samples.push(json!({"id": id, "ops": ops.iter().map(|o| format!("{o:?}")).collect::<Vec<_>>()}));
            }
            sh.push(lines.len() as u64, lines);
        }
    }
    // user-defined sink receiving whole components
    let streams = component_streams(seed, if thorough { 60 } else { 12 });
    let mut ncomp = 0usize;
    for (ci, (what, s)) in streams.iter().enumerate() {
        let mut comps: Vec<(String, Box<dyn Fn(&mut UserSink) -> bool + '_>, Box<dyn Fn(&mut ByteSink) + '_>)> = vec![];
        comps.push((format!("{what} (whole stream)"), Box::new(move |u| s.write(u).is_ok()), Box::new(move |b| { s.write(b).ok(); })));
        for k in 0..s.frame_count() {
            let f = s.frame(k).unwrap();
            comps.push((format!("{what} frame {k}"), Box::new(move |u| f.write(u).is_ok()), Box::new(move |b| { f.write(b).ok(); })));
            comps.push((format!("{what} frame {k} header"), Box::new(move |u| f.header().write(u).is_ok()), Box::new(move |b| { f.header().write(b).ok(); })));
            for c in 0..f.subframe_count() {
                let sf = f.subframe(c).unwrap();
                comps.push((format!("{what} frame {k} subframe {c}"), Box::new(move |u| sf.write(u).is_ok()), Box::new(move |b| { sf.write(b).ok(); })));
            }
        }
        comps.push((format!("{what} stream info"), Box::new(move |u| s.stream_info().write(u).is_ok()), Box::new(move |b| { s.stream_info().write(b).ok(); })));
        for (k, (name, wu, wb)) in comps.iter().enumerate() {
            let mut u = UserSink::new(None, true);
            let r = catch_unwind(AssertUnwindSafe(|| wu(&mut u)));
            let mut b = ByteSink::new();
            wb(&mut b);
            let id = format!("user-{ci}-{k}");
            let mut lines = vec![json!({"ev": "reset", "sink": "user", "id": id})];
            nops += u.calls.len();
            lines.extend(u.calls.drain(..));
            if r.is_err() {
                lines.push(json!({"ev": "op", "op": "align", "v": [], "n": 0, "ret": -1, "len": 0, "store": [], "panic": true, "observers": true}));
                panics += 1;
            }
            lines.push(json!({"ev": "expect", "bytes": b.as_slice(), "nbits": b.len(), "what": name}));
            lines.push(json!({"ev": "fin"}));
            classes.insert(format!("user/{}", name.split(' ').last().unwrap_or("")));
            sh.push(lines.len() as u64, lines);
            ncomp += 1;
            nseq += 1;
        }
    }
    let files = sh.write(shards);
    println!(
        "{}",
        json!({"sequences": nseq, "ops": nops, "panics": panics, "components": ncomp, "classes": classes.len(), "samples": samples,
               "files": files.iter().map(|p| p.to_string_lossy().to_string()).collect::<Vec<_>>()})
    );
}

// ------------------------------------------------------------------ C12: failing sinks

fn try_write<E: ErrKind>(k: usize, w: &dyn Fn(&mut UserSinkG<E>) -> Result<(), String>) -> (String, usize, Vec<u8>) {
    let mut u = UserSinkG::<E>::new(Some(k), false);
    let r = catch_unwind(AssertUnwindSafe(|| w(&mut u)));
    let outcome = match r {
        Ok(Ok(())) => "ok".to_string(),
        Ok(Err(e)) => e,
        Err(_) => "panic".to_string(),
    };
    (outcome, u.bits.len(), u.bytes())
}

fn out_err<S: BitSink>(e: flacenc::error::OutputError<S>) -> String {
    match e {
        flacenc::error::OutputError::Sink(_) => "err:sink".to_string(),
        flacenc::error::OutputError::Range(_) => "err:range".to_string(),
        #[allow(unreachable_patterns)]
        _ => "err:other".to_string(),
    }
}

pub fn cmd_faulty(a: &Args) {
    let thorough = a.get("tier", "quick") == "thorough";
    let seed = a.num("seed", 1);
    let out = PathBuf::from(a.get("out", "/verif/.work/faulty"));
    let shards = a.num("shards", 12) as usize;
    let mut sh = Shards::new(&out, "faulty");
    let streams = component_streams(seed, if thorough { 60 } else { 10 });
    let mut acc = FaultyAcc::default();
    // the sink's error type is the user's choice: one carrying data (every stream), a field-less one and
    // std::io::Error (the first streams)
    faulty_for::<SinkFailure>("f", &streams, thorough, &mut sh, &mut acc);
    let few = &streams[..streams.len().min(if thorough { 12 } else { 3 })];
    faulty_for::<SinkFull>("z", few, thorough, &mut sh, &mut acc);
    faulty_for::<std::io::Error>("io", &few[..few.len().min(2)], thorough, &mut sh, &mut acc);
    let FaultyAcc { ncomp, ntries, outcomes, classes, samples } = acc;
    let files = sh.write(shards);
    println!(
        "{}",
        json!({"components": ncomp, "tries": ntries, "outcomes": outcomes, "classes": classes.len(), "samples": samples,
               "files": files.iter().map(|p| p.to_string_lossy().to_string()).collect::<Vec<_>>()})
    );
}

#[derive(Default)]
struct FaultyAcc {
    ncomp: usize,
    ntries: usize,
    outcomes: BTreeSet<String>,
    classes: BTreeSet<String>,
    samples: Vec<Value>,
}

fn faulty_for<E: ErrKind>(tag: &str, streams: &[(String, Stream)], thorough: bool, sh: &mut Shards, acc: &mut FaultyAcc) {
    let FaultyAcc { ncomp, ntries, outcomes, classes, samples } = acc;
    for (ci, (what, s)) in streams.iter().enumerate() {
        type W<'a, E> = Box<dyn Fn(&mut UserSinkG<E>) -> Result<(), String> + 'a>;
        let mut comps: Vec<(String, W<E>)> = vec![];
        comps.push((format!("{what} (whole stream)"), Box::new(move |u| s.write(u).map_err(out_err))));
        for k in 0..s.frame_count() {
            let f = s.frame(k).unwrap();
            comps.push((format!("{what} frame {k}"), Box::new(move |u| f.write(u).map_err(out_err))));
            if !thorough && k > 0 {
                continue;
            }
            comps.push((format!("{what} frame {k} header"), Box::new(move |u| f.header().write(u).map_err(out_err))));
            for c in 0..f.subframe_count() {
                let sf = f.subframe(c).unwrap();
                comps.push((format!("{what} frame {k} subframe {c}"), Box::new(move |u| sf.write(u).map_err(out_err))));
            }
        }
        comps.push((format!("{what} stream info"), Box::new(move |u| s.stream_info().write(u).map_err(out_err))));
        for (k, (name, w)) in comps.iter().enumerate() {
            // fault-free reference through the same kind of sink
            let mut full = UserSinkG::<E>::new(None, false);
            if catch_unwind(AssertUnwindSafe(|| w(&mut full))).map_or(true, |r| r.is_err()) {
                continue;
            }
            let nops = full.ncalls;
            let id = format!("{tag}-{ci}-{k}");
            let mut lines = vec![json!({"ev": "comp", "id": id, "what": name, "nops": nops, "nbits": full.bits.len(), "bytes": full.bytes()})];
            // every k up to nops + 1; long writes are strided in the quick tier
            let stride = if thorough || nops <= 400 { 1 } else { nops / 400 + 1 };
            let mut ks: Vec<usize> = (0..nops).step_by(stride).collect();
            ks.extend([nops.saturating_sub(1), nops, nops + 1]);
            ks.sort_unstable();
            ks.dedup();
            for kk in ks {
                let (outcome, nbits, bytes) = try_write::<E>(kk, w.as_ref());
                outcomes.insert(outcome.clone());
                lines.push(json!({"ev": "try", "k": kk, "outcome": outcome, "nbits": nbits, "bytes": bytes}));
                *ntries += 1;
            }
            lines.push(json!({"ev": "fin"}));
            classes.insert(format!("{tag}/{}/{}", name.split(' ').last().unwrap_or(""), if what.contains("precomputed") { "pre" } else { "plain" }));
            if samples.len() < 2 {
                samples.push(json!({"component": name, "nops": nops, "tries": lines.len() - 2}));
            }
            let cost: u64 = lines.len() as u64 * (full.bits.len() as u64 / 8 + 20);
            sh.push(cost, lines);
            *ncomp += 1;
        }
    }
}
