//! C10 driver: replays TLC-generated call histories on one long-lived thread and compares each
//! call with the same call made alone on a fresh thread.

use crate::enc::{self, Mode, Outcome, VecSource};
use crate::gen::{self, Cfg, Geometry};
use crate::trace::Shards;
use crate::Args;
use flacenc::bitsink::{ByteSink, MemSink};
use flacenc::component::parser;
use flacenc::component::BitRepr;
use serde_json::{json, Value};
use std::collections::BTreeMap;
use std::io::BufRead;
use std::path::PathBuf;

fn fnv(bytes: &[u8]) -> String {
    let mut h: u64 = 0xcbf29ce484222325;
    for b in bytes {
        h ^= *b as u64;
        h = h.wrapping_mul(0x100000001b3);
    }
    format!("{h:016x}:{}", bytes.len())
}

fn stream_for(ch: usize, bps: usize, bs: usize, n: usize, fam: &str, cfg: Cfg, mode: Mode, seed: u64) -> Vec<u8> {
    let mut rng = gen::rng_for(seed, 4711);
    let g = Geometry { ch, bps, rate: 44100, bs, n };
    let chans = gen::signal(&mut rng, fam, "near", ch, bps, n);
    match enc::encode(&cfg, VecSource::new(&g, gen::interleave(&chans)), &mode) {
        Outcome::Ok(s) => enc::stream_bytes(&s).unwrap_or_else(|e| e.into_bytes()),
        Outcome::Err(k, m) => format!("err:{k}:{m}").into_bytes(),
        Outcome::Panic(m) => format!("panic:{m}").into_bytes(),
    }
}

/// The call alphabet.  Every call is a pure function of its letter; the result is a byte string.
pub fn call(letter: &str) -> (String, Vec<u8>) {
    let d = |bs: usize| Cfg { block_size: bs, ..Cfg::default() };
    match letter {
        "A" => ("stream mono 8-bit bs32 default".into(), stream_for(1, 8, 32, 100, "sine", d(32), Mode::St, 1)),
        "B" => ("stream stereo 24-bit bs64 default".into(), stream_for(2, 24, 64, 200, "sine", d(64), Mode::St, 2)),
        "C" => ("stream 5ch 16-bit bs4096 default".into(), stream_for(5, 16, 4096, 4200, "noise_lo", d(4096), Mode::St, 3)),
        "D" => ("stream stereo 16-bit bs256 rectangular window".into(), stream_for(2, 16, 256, 600, "thresh", Cfg { alpha: None, ..d(256) }, Mode::St, 4)),
        "E" => ("stream stereo 16-bit bs256 Tukey(0)".into(), stream_for(2, 16, 256, 600, "thresh", Cfg { alpha: Some(0.0), ..d(256) }, Mode::St, 4)),
        "F" => ("stream stereo 16-bit bs256 Tukey(1e-6)".into(), stream_for(2, 16, 256, 600, "thresh", Cfg { alpha: Some(1e-6), ..d(256) }, Mode::St, 4)),
        "G" => ("stream stereo 16-bit bs256 Tukey(0.4)".into(), stream_for(2, 16, 256, 600, "thresh", Cfg { alpha: Some(0.4), ..d(256) }, Mode::St, 4)),
        "H" => ("stream stereo 16-bit bs256 Tukey(0.4+2^-20)".into(), stream_for(2, 16, 256, 600, "thresh", Cfg { alpha: Some(0.4 + 9.5367431640625e-7), ..d(256) }, Mode::St, 4)),
        "I" => ("stream mono 16-bit bs96 BitCount".into(), stream_for(1, 16, 96, 300, "ramp", Cfg { partitions: None, ..d(96) }, Mode::St, 5)),
        "J" => ("stream stereo 20-bit bs128 max_parameter 0".into(), stream_for(2, 20, 128, 400, "noise_lo", Cfg { max_parameter: 0, ..d(128) }, Mode::St, 6)),
        "K" => ("frame-level stereo 16-bit bs32".into(), stream_for(2, 16, 32, 90, "impulse", d(32), Mode::Fl, 7)),
        "L" => {
            // parse a stream and serialise the tree again, through the word sink as well
            let b = stream_for(2, 12, 48, 150, "sine", d(48), Mode::St, 8);
            let out = match parser::stream::<nom::error::Error<&[u8]>>(&b) {
                Ok((_, s)) => {
                    let mut a = ByteSink::new();
                    let mut w = MemSink::<u64>::new();
                    let _ = s.write(&mut a);
                    let _ = s.write(&mut w);
                    let mut v = a.as_slice().to_vec();
                    v.extend(w.as_slice().iter().flat_map(|x| x.to_be_bytes()));
                    v
                }
                Err(_) => b"parse error".to_vec(),
            };
            ("parse + re-serialise stereo 12-bit bs48".into(), out)
        }
        "M" => {
            // a header write that fails part-way (a sample number the header cannot carry), then nothing else:
            // the *next* call of the history must not see anything of it
            use flacenc::component::{ChannelAssignment, FrameHeader, FrameOffset};
            let mut out = b"M:".to_vec();
            if let Ok(mut h) = FrameHeader::new(192, ChannelAssignment::Independent(2), 16, 44100, FrameOffset::Frame(3)) {
                h.set_frame_offset(FrameOffset::StartSample(1 << 36));
                let mut sink = ByteSink::new();
                out.extend(format!("{}", h.write(&mut sink).is_ok()).bytes());
                out.extend_from_slice(sink.as_slice());
            }
            ("failing header write (sample number 2^36)".into(), out)
        }
        "N" => {
            // a stream written to a user sink that fails in the middle of the second frame
            let b = {
                let g = Geometry { ch: 2, bps: 16, rate: 44100, bs: 64, n: 200 };
                let mut rng = gen::rng_for(9, 4711);
                let chans = gen::signal(&mut rng, "sine", "near", 2, 16, 200);
                match enc::encode(&d(64), VecSource::new(&g, gen::interleave(&chans)), &Mode::St) {
                    Outcome::Ok(s) => {
                        let mut u = crate::sink::UserSink::new(Some(120), false);
                        let r = s.write(&mut u).is_ok();
                        let mut v = format!("N:{r}:").into_bytes();
                        v.extend(u.bytes());
                        v
                    }
                    _ => b"N:encode failed".to_vec(),
                }
            };
            ("stream write into a sink failing at operation 120".into(), b)
        }
        pl if pl.starts_with('P') => {
            // parameter-variation alphabet: P<variant>_<signal>: one geometry (stereo 16-bit, 256-sample blocks), one
            // configuration field changed per variant - state derived from the configuration of an EARLIER call
            let q: Vec<usize> = pl[1..].split('_').map(|x| x.parse().unwrap()).collect();
            let (name, cfg) = pvariant(q[0]);
            let fam = PFAMS[q[1]];
            (format!("stream stereo 16-bit bs256 {fam} {name}"), stream_for(2, 16, 256, 600, fam, cfg, Mode::St, 11))
        }
        w if w.starts_with('W') => {
            // window-cache aliasing alphabet: W<alpha index>_<block-size index>_<signal index>
            let p: Vec<usize> = w[1..].split('_').map(|x| x.parse().unwrap()).collect();
            let (alpha, bs, fam) = (WALPHAS[p[0]], WSIZES[p[1]], WFAMS[p[2]]);
            let cfg = Cfg { alpha: if alpha < 0.0 { None } else { Some(alpha) }, quant_precision: 15, lpc_order: 12, ..d(bs) };
            (format!("stream stereo 16-bit bs{bs} {fam} window {}", if alpha < 0.0 { "rectangular".to_string() } else { format!("Tukey({alpha:e})") }),
             stream_for(2, 16, bs, bs * 2 + 40, fam, cfg, Mode::St, 9))
        }
        _ => ("?".into(), vec![]),
    }
}

pub const PFAMS: [&str; 2] = ["thresh", "noise_lo"];
pub const PVARIANTS: usize = 19;
/// One configuration field changed against the default (block size 256).
pub fn pvariant(k: usize) -> (String, Cfg) {
    let d = Cfg { block_size: 256, ..Cfg::default() };
    match k {
        0 => ("default".into(), d),
        1 => ("max_parameter 0".into(), Cfg { max_parameter: 0, ..d }),
        2 => ("max_parameter 3".into(), Cfg { max_parameter: 3, ..d }),
        3 => ("max_parameter 7".into(), Cfg { max_parameter: 7, ..d }),
        4 => ("order selection by bit count".into(), Cfg { partitions: None, ..d }),
        5 => ("entropy estimate with 1 partition".into(), Cfg { partitions: Some(1), ..d }),
        6 => ("entropy estimate with 64 partitions".into(), Cfg { partitions: Some(64), ..d }),
        7 => ("lpc_order 1".into(), Cfg { lpc_order: 1, ..d }),
        8 => ("lpc_order 24".into(), Cfg { lpc_order: 24, ..d }),
        9 => ("quant_precision 3".into(), Cfg { quant_precision: 3, ..d }),
        10 => ("quant_precision 9".into(), Cfg { quant_precision: 9, ..d }),
        11 => ("fixed max order 0".into(), Cfg { fixed_max_order: 0, ..d }),
        12 => ("fixed max order 2".into(), Cfg { fixed_max_order: 2, ..d }),
        13 => ("no lpc".into(), Cfg { use_lpc: false, ..d }),
        14 => ("no fixed".into(), Cfg { use_fixed: false, ..d }),
        15 => ("no constant".into(), Cfg { use_constant: false, ..d }),
        16 => ("no mid-side".into(), Cfg { use_midside: false, ..d }),
        17 => ("no left-side / right-side".into(), Cfg { use_leftside: false, use_rightside: false, ..d }),
        _ => ("rectangular window".into(), Cfg { alpha: None, ..d }),
    }
}

/// Window parameters that a too-coarse cache key could confuse (negative = rectangular): exact zero,
/// values below / around f32::EPSILON, neighbours at 1 ulp .. 1e-3 of 0 / 0.4 / 1.
pub const WALPHAS: [f32; 18] = [
    -1.0, 0.0, 1e-9, 1e-8, 1.1e-7, 1.3e-7, 1e-6, 1e-5, 1e-4, 1e-3, 0.4, 0.400_000_04, 0.400_001, 0.400_1, 0.401, 0.999, 0.999_999_9, 1.0,
];
/// Block sizes that share a 16-sample bucket / differ by one / by one bucket.
pub const WSIZES: [usize; 5] = [256, 255, 241, 272, 257];
pub const WFAMS: [&str; 2] = ["thresh", "noise_full"];

/// All ordered pairs of window letters that differ in exactly one coordinate class (alpha at one size, or size at
/// one alpha), for each signal.
pub fn window_pairs(thorough: bool) -> Vec<Vec<String>> {
    let mut v = vec![];
    for f in 0..WFAMS.len() {
        for a in 0..WALPHAS.len() {
            for b in 0..WALPHAS.len() {
                if a != b {
                    for s in 0..(if thorough { WSIZES.len() } else { 1 }) {
                        v.push(vec![format!("W{a}_{s}_{f}"), format!("W{b}_{s}_{f}")]);
                    }
                }
            }
        }
        // every ordered pair of parameter variants (quick: first signal only)
        if f == 0 || thorough {
            for a in 0..PVARIANTS {
                for b in 0..PVARIANTS {
                    if a != b {
                        v.push(vec![format!("P{a}_{f}"), format!("P{b}_{f}")]);
                    }
                }
            }
        }
        for a in [0usize, 1, 3, 10, 17] {
            for s in 0..WSIZES.len() {
                for t in 0..WSIZES.len() {
                    if s != t {
                        v.push(vec![format!("W{a}_{s}_{f}"), format!("W{a}_{t}_{f}")]);
                    }
                }
            }
        }
    }
    v
}

pub fn cmd_histexp(_a: &Args) {
    for fam in gen::FAMILIES {
        for (bps, bs, n) in [(16usize, 64usize, 200usize), (24, 128, 400), (16, 256, 600)] {
            let f = move |alpha: f32| stream_for(2, bps, bs, n, fam, Cfg { alpha: Some(alpha), block_size: bs, ..Cfg::default() }, Mode::St, 4);
            let fam2 = fam.to_string();
            let alone = std::thread::spawn(move || { let _ = &fam2; fnv(&f(1e-6)) }).join().unwrap();
            let after = std::thread::spawn(move || { let _ = f(0.0); fnv(&f(1e-6)) }).join().unwrap();
            let g = move |alpha: f32| stream_for(2, bps, bs, n, fam, Cfg { alpha: Some(alpha), block_size: bs, ..Cfg::default() }, Mode::St, 4);
            let alone2 = std::thread::spawn(move || fnv(&g(0.4 + 9.5367431640625e-7))).join().unwrap();
            let after2 = std::thread::spawn(move || { let _ = g(0.4); fnv(&g(0.4 + 9.5367431640625e-7)) }).join().unwrap();
            println!("{fam} {bps} {bs}: tiny {} ; near0.4 {}", alone != after, alone2 != after2);
        }
    }
}

pub fn cmd_history(a: &Args) {
    let hist: Vec<Value> = std::io::BufReader::new(std::fs::File::open(a.get("histories", "/verif/.work/hist10.ndjson")).expect("histories"))
        .lines()
        .map(|l| serde_json::from_str(&l.unwrap()).unwrap())
        .collect();
    let out = PathBuf::from(a.get("out", "/verif/.work/c10"));
    let extra_random = a.num("random", 0) as usize;
    let seed = a.num("seed", 1);
    let letters: Vec<String> = ["A", "B", "C", "D", "E", "F", "G", "H", "I", "J", "K", "L", "M", "N"].iter().map(|s| s.to_string()).collect();
    let pairs = if a.flag("pairs") { window_pairs(a.get("tier", "quick") == "thorough") } else { vec![] };
    let mut wletters: Vec<String> = pairs.iter().flatten().cloned().collect();
    wletters.sort();
    wletters.dedup();
    let mut lines = vec![];
    // F[c]: every call alone on a fresh thread (twice, on two different fresh threads)
    let mut reference: BTreeMap<String, String> = BTreeMap::new();
    for round in 0..2 {
        for l in letters.iter().chain(wletters.iter()) {
            let l2 = l.clone();
            let (what, bytes) = std::thread::spawn(move || call(&l2)).join().unwrap();
            let dg = fnv(&bytes);
            reference.insert(l.clone(), dg.clone());
            lines.push(json!({"ev": "ref", "id": format!("ref-{l}-{round}"), "call": l, "digest": dg, "what": what}));
        }
    }
    let mut all: Vec<Vec<String>> = hist.iter().map(|h| h["h"].as_array().unwrap().iter().map(|x| x.as_str().unwrap().to_string()).collect()).collect();
    {
        use rand::Rng;
        let mut rng = gen::rng_for(seed, 1010);
        for _ in 0..extra_random {
            all.push((0..8).map(|_| letters[rng.gen_range(0..letters.len())].clone()).collect());
        }
    }
    all.extend(pairs);
    let mut ncalls = 0usize;
    let mut mismatches = 0usize;
    for (hi, h) in all.iter().enumerate() {
        // one long-lived thread per history
        let h2 = h.clone();
        let results: Vec<(String, String)> = std::thread::spawn(move || h2.iter().map(|l| { let (w, b) = call(l); (w, fnv(&b)) }).collect()).join().unwrap();
        for (pos, (l, (what, dg))) in h.iter().zip(results).enumerate() {
            ncalls += 1;
            if reference.get(l) != Some(&dg) {
                mismatches += 1;
            }
            lines.push(json!({"ev": "call", "id": format!("h{hi}-{pos}"), "h": h, "pos": pos + 1, "call": l, "digest": dg, "what": what}));
        }
    }
    // the references must come first in every shard: one shard per chunk, each starting with them
    let refs: Vec<Value> = lines.iter().filter(|l| l["ev"] == "ref").cloned().collect();
    let calls: Vec<Value> = lines.into_iter().filter(|l| l["ev"] == "call").collect();
    let shards = a.num("shards", 8) as usize;
    let per = (calls.len() + shards - 1) / shards.max(1);
    std::fs::create_dir_all(&out).unwrap();
    let mut files = vec![];
    for (i, chunk) in calls.chunks(per.max(1)).enumerate() {
        let mut sh = Shards::new(&out, &format!("hist{i}"));
        let mut v = if i == 0 { refs.clone() } else { refs.iter().cloned().map(|mut r| { r["id"] = json!(format!("{}-s{i}", r["id"].as_str().unwrap())); r }).collect() };
        v.extend(chunk.iter().cloned());
        sh.push(1, v);
        files.extend(sh.write(1));
    }
    println!(
        "{}",
        json!({"histories": all.len(), "calls": ncalls, "mismatches_seen_by_harness": mismatches, "events": ncalls + refs.len() * files.len(),
               "files": files.iter().map(|p| p.to_string_lossy().to_string()).collect::<Vec<_>>()})
    );
}
