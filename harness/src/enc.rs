//! Encoding drivers: user-defined sources and the three ways of producing a stream.

use crate::gen::{Cfg, Geometry};
use flacenc::bitsink::ByteSink;
use flacenc::component::{BitRepr, Stream, StreamInfo};
use flacenc::error::{EncodeError, SourceError, SourceErrorReason, Verify};
use flacenc::source::{Context, Fill, FrameBuf, Source};
use serde::{Deserialize, Serialize};
use std::panic::{catch_unwind, AssertUnwindSafe};

#[derive(Serialize, Deserialize, Clone, Debug, PartialEq)]
pub enum Delivery {
    Ints,
    Bytes,
    /// one source handing over some blocks as integers and others as packed bytes (allowed by the trait):
    /// reads 0,1 integers, 2 bytes, 3 integers, 4,5 bytes, ... (pattern of period 6)
    Mixed,
}

/// A user-defined `Source` over an interleaved vector with optional faults.
#[derive(Clone, Debug)]
pub struct VecSource {
    pub ch: usize,
    pub bps: usize,
    pub rate: usize,
    pub data: Vec<i32>, // interleaved
    pub pos: usize,     // in interleaved samples
    pub delivery: Delivery,
    pub bytes_per_sample: usize,
    pub hint: bool,
    /// the hint is off by this many samples (never below 0)
    pub hint_delta: i64,
    /// call fill_* with an empty slice at end of input (MemSource does), or not at all
    pub fill_at_eof: bool,
    /// the k-th read (0-based) returns an error
    pub fail_at: Option<usize>,
    pub reads: usize,
    /// when set, every `read_samples` call is recorded as (block_size argument, samples returned or -1)
    pub log: Option<std::sync::Arc<std::sync::Mutex<Vec<(usize, i64)>>>>,
}

impl VecSource {
    pub fn new(g: &Geometry, interleaved: Vec<i32>) -> Self {
        VecSource {
            ch: g.ch,
            bps: g.bps,
            rate: g.rate,
            data: interleaved,
            pos: 0,
            delivery: Delivery::Ints,
            bytes_per_sample: g.bps.saturating_add(7) / 8,
            hint: true,
            hint_delta: 0,
            fill_at_eof: true,
            fail_at: None,
            reads: 0,
            log: None,
        }
    }
}

pub fn to_le_bytes(samples: &[i32], bytes_per_sample: usize) -> Vec<u8> {
    let mut out = Vec::with_capacity(samples.len() * bytes_per_sample);
    for s in samples {
        out.extend_from_slice(&s.to_le_bytes()[0..bytes_per_sample]);
    }
    out
}

impl Source for VecSource {
    fn channels(&self) -> usize {
        self.ch
    }
    fn bits_per_sample(&self) -> usize {
        self.bps
    }
    fn sample_rate(&self) -> usize {
        self.rate
    }
    fn read_samples<F: Fill>(
        &mut self,
        block_size: usize,
        dest: &mut F,
    ) -> Result<usize, SourceError> {
        let k = self.reads;
        self.reads += 1;
        if self.fail_at == Some(k) {
            if let Some(l) = &self.log {
                l.lock().unwrap().push((block_size, -1));
            }
            return Err(SourceError::by_reason(SourceErrorReason::IO(None)));
        }
        if self.ch == 0 {
            return Ok(0);
        }
        let want = block_size.saturating_mul(self.ch);
        let end = self.pos.saturating_add(want).min(self.data.len());
        let chunk = &self.data[self.pos..end];
        if !chunk.is_empty() || self.fill_at_eof {
            let as_ints = match self.delivery {
                Delivery::Ints => true,
                Delivery::Bytes => false,
                Delivery::Mixed => matches!(k % 6, 0 | 1 | 3),
            };
            match as_ints {
                true => dest.fill_interleaved(chunk)?,
                false => {
                    dest.fill_le_bytes(&to_le_bytes(chunk, self.bytes_per_sample), self.bytes_per_sample)?
                }
            }
        }
        let n = chunk.len() / self.ch;
        self.pos = end;
        if let Some(l) = &self.log {
            l.lock().unwrap().push((block_size, n as i64));
        }
        Ok(n)
    }
    fn len_hint(&self) -> Option<usize> {
        if self.hint {
            Some(((self.data.len() / self.ch) as i64 + self.hint_delta).max(0) as usize)
        } else {
            None
        }
    }
}

#[derive(Serialize, Deserialize, Clone, Debug, PartialEq)]
pub enum Mode {
    /// single thread
    St,
    /// multi thread with the given worker count
    Mt(usize),
    /// frame-level entry point, stream assembled by the caller
    Fl,
}

impl Mode {
    pub fn name(&self) -> String {
        match self {
            Mode::St => "st".into(),
            Mode::Mt(w) => format!("mt{w}"),
            Mode::Fl => "fl".into(),
        }
    }
}


pub enum Outcome {
    Ok(Stream),
    /// "source" | "config"
    Err(String, String),
    Panic(String),
}

pub fn panic_message(e: Box<dyn std::any::Any + Send>) -> String {
    if let Some(s) = e.downcast_ref::<&str>() {
        (*s).to_string()
    } else if let Some(s) = e.downcast_ref::<String>() {
        s.clone()
    } else {
        "<non-string panic>".into()
    }
}

pub fn err_kind(e: &EncodeError) -> (String, String) {
    match e {
        EncodeError::Source(s) => ("source".into(), format!("{s}")),
        EncodeError::Config(v) => ("config".into(), format!("{v}")),
        #[allow(unreachable_patterns)]
        _ => ("other".into(), format!("{e}")),
    }
}

/// Encodes through the stream-level entry point (`St`/`Mt`) or the frame-level one (`Fl`).
pub fn encode(cfg: &Cfg, src: VecSource, mode: &Mode) -> Outcome {
    encode_bs(cfg, src, mode, cfg.block_size)
}

/// Same, with the block-size *argument* given separately from the configuration's field.
pub fn encode_bs(cfg: &Cfg, src: VecSource, mode: &Mode, bs: usize) -> Outcome {
    let mut cfg = cfg.clone();
    match mode {
        Mode::St | Mode::Fl => {
            cfg.multithread = false;
        }
        Mode::Mt(w) => {
            cfg.multithread = true;
            cfg.workers = Some(*w);
        }
    }
    let enc = cfg.to_encoder();
    let r = catch_unwind(AssertUnwindSafe(|| -> Result<Stream, EncodeError> {
        let verified = enc.into_verified().map_err(|(_, e)| EncodeError::Config(e))?;
        match mode {
            Mode::St | Mode::Mt(_) => flacenc::encode_with_fixed_block_size(&verified, src, bs),
            Mode::Fl => {
                let mut src = src;
                let mut stream = Stream::new(src.sample_rate(), src.channels(), src.bits_per_sample())?;
                let mut fb_ctx = (
                    FrameBuf::with_size(src.channels(), bs)?,
                    Context::new(src.bits_per_sample(), src.channels()),
                );
                let info: StreamInfo = stream.stream_info().clone();
                let mut k = 0usize;
                loop {
                    let n = src.read_samples(bs, &mut fb_ctx)?;
                    if n == 0 {
                        break;
                    }
                    let frame = flacenc::encode_fixed_size_frame(&verified, &fb_ctx.0, k, &info)?;
                    stream.add_frame(frame);
                    k += 1;
                }
                stream
                    .stream_info_mut()
                    .set_block_sizes(bs, bs)
                    .map_err(EncodeError::Config)?;
                stream.stream_info_mut().set_md5_digest(&fb_ctx.1.md5_digest());
                stream.stream_info_mut().set_total_samples(fb_ctx.1.total_samples());
                Ok(stream)
            }
        }
    }));
    match r {
        Ok(Ok(s)) => Outcome::Ok(s),
        Ok(Err(e)) => {
            let (k, m) = err_kind(&e);
            Outcome::Err(k, m)
        }
        Err(p) => Outcome::Panic(panic_message(p)),
    }
}

/// Encodes with the configuration exactly as given (no override of `multithread`/`workers`).
pub fn encode_raw(cfg: &Cfg, src: VecSource) -> Outcome {
    let bs = cfg.block_size;
    let enc = cfg.to_encoder();
    let r = catch_unwind(AssertUnwindSafe(|| -> Result<Stream, EncodeError> {
        let verified = enc.into_verified().map_err(|(_, e)| EncodeError::Config(e))?;
        flacenc::encode_with_fixed_block_size(&verified, src, bs)
    }));
    match r {
        Ok(Ok(s)) => Outcome::Ok(s),
        Ok(Err(e)) => {
            let (k, m) = err_kind(&e);
            Outcome::Err(k, m)
        }
        Err(p) => Outcome::Panic(panic_message(p)),
    }
}

pub fn stream_bytes(s: &Stream) -> Result<Vec<u8>, String> {
    let r = catch_unwind(AssertUnwindSafe(|| {
        let mut sink = ByteSink::new();
        s.write(&mut sink).map(|_| sink.as_slice().to_vec()).map_err(|e| format!("{e:?}"))
    }));
    match r {
        Ok(x) => x,
        Err(p) => Err(format!("panic: {}", panic_message(p))),
    }
}
