//! C16 driver: exhaustive small mutations of emitted streams through the library's parser.

use crate::enc::{self, Mode, Outcome, VecSource};
use crate::gen::{self, Cfg, Geometry};
use crate::trace::Shards;
use crate::Args;
use flacenc::component::parser;
use flacenc::component::Decode;
use rand::Rng;
use serde_json::{json, Value};
use std::panic::{catch_unwind, AssertUnwindSafe};
use std::path::PathBuf;

enum Res {
    Err,
    Ok(Vec<Vec<i32>>), // interleaved audio per frame
    Panic(String),
}

fn parse(bytes: &[u8]) -> Res {
    let r = catch_unwind(AssertUnwindSafe(|| {
        parser::stream::<nom::error::Error<&[u8]>>(bytes).ok().map(|(_, s)| {
            (0..s.frame_count()).map(|k| s.frame(k).unwrap().decode()).collect::<Vec<_>>()
        })
    }));
    match r {
        Ok(Some(a)) => Res::Ok(a),
        Ok(None) => Res::Err,
        Err(p) => Res::Panic(enc::panic_message(p)),
    }
}

struct Tally {
    class: &'static str,
    total: usize,
    err: usize,
    ok: usize,
    panic: usize,
}

pub fn cmd_mutate(a: &Args) {
    let thorough = a.get("tier", "quick") == "thorough";
    let seed = a.num("seed", 1);
    let out = PathBuf::from(a.get("out", "/verif/.work/mutate"));
    let nstreams = a.num("streams", if thorough { 24 } else { 8 }) as usize;
    let burst_stride = a.num("burst-stride", if thorough { 1 } else { 5 }) as usize;
    let mut sh = Shards::new(&out, "mut");
    let mut total_mutants = 0usize;
    let mut summary = vec![];
    for si in 0..nstreams {
        let mut rng = gen::rng_for(seed, 70_000 + si as u64);
        // one stream per subframe kind / channel assignment flavour
        let (ch, bps, fam, rel, cfgk) = [
            (1usize, 16usize, "sine", "indep", 0), (2, 16, "sine", "near", 0), (2, 8, "noise_lo", "inverted", 1), (1, 24, "ramp", "indep", 2),
            (2, 12, "dc", "same", 0), (3, 20, "noise_mid", "indep", 3), (2, 16, "impulse", "mixed", 0), (1, 8, "noise_full", "indep", 1),
        ][si % 8];
        let bs = [64usize, 96, 80, 128][si % 4];
        let n = bs * 2 + 9 + si;
        let mut cfg = Cfg { block_size: bs, ..Cfg::default() };
        match cfgk {
            1 => cfg.use_lpc = false,
            2 => {
                cfg.use_fixed = false;
                cfg.lpc_order = 6;
            }
            3 => {
                cfg.use_lpc = false;
                cfg.use_fixed = false;
            }
            _ => {}
        }
        let g = Geometry { ch, bps, rate: 44100, bs, n };
        let chans = gen::signal(&mut rng, fam, rel, ch, bps, n);
        let Outcome::Ok(stream) = enc::encode(&cfg, VecSource::new(&g, gen::interleave(&chans)), &Mode::St) else { continue };
        let Ok(bytes) = enc::stream_bytes(&stream) else { continue };
        let Res::Ok(orig_audio) = parse(&bytes) else { continue };
        let id = format!("s{si}");
        let nblk = (n + bs - 1) / bs;
        let blocks: Vec<Vec<&[i32]>> = (0..nblk).map(|k| chans.iter().map(|c| &c[k * bs..((k + 1) * bs).min(n)]).collect()).collect();
        let frames_at = 42usize;
        let mut lines = vec![json!({"ev": "orig", "id": format!("{id}-orig"), "bytes": bytes, "ch": ch, "bps": bps, "blocks": blocks, "frames_at": frames_at})];
        let mut tallies = vec![];
        let mut extra = 0usize;
        let mut judge = |class: &'static str, m: &[u8], pos: usize, mask: &[u8], trunc: i64, t: &mut Tally, lines: &mut Vec<Value>, extra: &mut usize| {
            t.total += 1;
            match parse(m) {
                Res::Err => t.err += 1,
                Res::Ok(audio) => {
                    t.ok += 1;
                    if *extra < 400 {
                        *extra += 1;
                        lines.push(json!({"ev": "ok", "id": format!("{id}-{class}-ok-{}", t.total), "class": class, "pos": pos, "mask": mask, "trunc": trunc,
                                          "audio_same": audio == orig_audio, "inframe": pos >= frames_at && trunc < 0}));
                    }
                }
                Res::Panic(msg) => {
                    t.panic += 1;
                    if *extra < 400 {
                        *extra += 1;
                        lines.push(json!({"ev": "panic", "id": format!("{id}-{class}-panic-{}", t.total), "class": class, "pos": pos, "mask": mask, "trunc": trunc, "msg": msg.chars().take(120).collect::<String>()}));
                    }
                }
            }
        };
        // (1) every single-bit flip
        let mut t = Tally { class: "bitflip", total: 0, err: 0, ok: 0, panic: 0 };
        let mut m = bytes.clone();
        for bit in 0..bytes.len() * 8 {
            let (i, mask) = (bit / 8, 0x80u8 >> (bit % 8));
            m[i] ^= mask;
            judge("bitflip", &m, i, &[mask], -1, &mut t, &mut lines, &mut extra);
            m[i] ^= mask;
        }
        tallies.push(t);
        // (2) every 2..8-bit burst pattern (both end bits set) at every bit position inside the frames
        let mut t = Tally { class: "burst", total: 0, err: 0, ok: 0, panic: 0 };
        let mut k = 0usize;
        for bit in frames_at * 8..bytes.len() * 8 - 8 {
            for len in 2..=8u32 {
                for inner in 0..(1u32 << (len - 2)) {
                    k += 1;
                    if k % burst_stride != 0 {
                        continue;
                    }
                    // pattern of `len` bits with both ends set, placed MSB-first at `bit`
                    let pat: u32 = (1 << (len - 1)) | (inner << 1) | 1;
                    let shifted: u32 = pat << (24 - len - (bit % 8) as u32);
                    let mask = [(shifted >> 16) as u8, (shifted >> 8) as u8, shifted as u8];
                    let i = bit / 8;
                    for (j, mk) in mask.iter().enumerate() {
                        if i + j < m.len() {
                            m[i + j] ^= mk;
                        }
                    }
                    judge("burst", &m, i, &mask, -1, &mut t, &mut lines, &mut extra);
                    for (j, mk) in mask.iter().enumerate() {
                        if i + j < m.len() {
                            m[i + j] ^= mk;
                        }
                    }
                }
            }
        }
        tallies.push(t);
        // (3) truncation at every byte
        let mut t = Tally { class: "trunc", total: 0, err: 0, ok: 0, panic: 0 };
        for cut in 0..bytes.len() {
            judge("trunc", &bytes[..cut], 0, &[], cut as i64, &mut t, &mut lines, &mut extra);
        }
        tallies.push(t);
        // (4) random byte strings and randomly overwritten regions
        let mut t = Tally { class: "random", total: 0, err: 0, ok: 0, panic: 0 };
        for r in 0..(if thorough { 20000 } else { 3000 }) {
            let mut m2 = bytes.clone();
            if r % 3 == 0 {
                let len = rng.gen_range(0..200);
                m2 = (0..len).map(|_| rng.gen()).collect();
                if r % 6 == 0 && m2.len() >= 4 {
                    m2[..4].copy_from_slice(b"fLaC");
                }
            } else {
                let i = rng.gen_range(0..m2.len());
                let l = rng.gen_range(1..16).min(m2.len() - i);
                for x in &mut m2[i..i + l] {
                    *x = rng.gen();
                }
            }
            // (random mutants are only judged for panics / different audio; they are not reported to TLC one by one)
            t.total += 1;
            match parse(&m2) {
                Res::Err => t.err += 1,
                Res::Ok(audio) => {
                    t.ok += 1;
                    if audio != orig_audio && m2.len() == bytes.len() {
                        // report as an accepted in-place mutant: TLC re-derives the verdict from the bytes
                        let pos = m2.iter().zip(bytes.iter()).position(|(x, y)| x != y).unwrap_or(0);
                        let end = m2.iter().zip(bytes.iter()).rposition(|(x, y)| x != y).unwrap_or(pos);
                        let mask: Vec<u8> = (pos..=end).map(|q| m2[q] ^ bytes[q]).collect();
                        lines.push(json!({"ev": "ok", "id": format!("{id}-random-ok-{}", t.total), "class": "random", "pos": pos, "mask": mask, "trunc": -1,
                                          "audio_same": false, "inframe": pos >= frames_at}));
                    }
                }
                Res::Panic(msg) => {
                    t.panic += 1;
                    if extra < 400 {
                        extra += 1;
                        lines.push(json!({"ev": "panic", "id": format!("{id}-random-panic-{}", t.total), "class": "random", "pos": 0, "mask": [], "trunc": -1, "msg": msg.chars().take(120).collect::<String>()}));
                    }
                }
            }
        }
        tallies.push(t);
        // (5) field-level mutants of the metadata (no CRC protects it, so every combination reaches the parser): each
        // STREAMINFO field and the block header's flag / type / length set to boundary values, singly and in pairs
        let mut t = Tally { class: "infofield", total: 0, err: 0, ok: 0, panic: 0 };
        {
            // (bit offset, width) of: last flag, block type, block length, min/max block size, min/max frame size,
            // sample rate, channels - 1, bits - 1, total samples
            let fields: [(usize, usize); 11] = [(32, 1), (33, 7), (40, 24), (64, 16), (80, 16), (96, 24), (120, 24), (144, 20), (164, 3), (167, 5), (172, 36)];
            let set = |m: &mut [u8], (off, w): (usize, usize), v: u64| {
                for i in 0..w {
                    let bit = (v >> (w - 1 - i)) & 1;
                    let (b, mask) = ((off + i) / 8, 0x80u8 >> ((off + i) % 8));
                    if bit == 1 { m[b] |= mask } else { m[b] &= !mask }
                }
            };
            let vals = |w: usize| -> Vec<u64> {
                let all = if w >= 64 { u64::MAX } else { (1u64 << w) - 1 };
                let mut v = vec![0u64, 1, all, all - 1, 1u64 << (w - 1), 15.min(all), 16.min(all), 34.min(all), 35.min(all)];
                v.sort_unstable();
                v.dedup();
                v
            };
            let singles: Vec<(usize, u64)> = (0..fields.len()).flat_map(|f| vals(fields[f].1).into_iter().map(move |v| (f, v))).collect();
            let mut run = |m: &[u8], t: &mut Tally, lines: &mut Vec<Value>, extra: &mut usize| {
                t.total += 1;
                match parse(m) {
                    Res::Err => t.err += 1,
                    Res::Ok(_) => t.ok += 1,
                    Res::Panic(msg) => {
                        t.panic += 1;
                        if *extra < 400 {
                            *extra += 1;
                            lines.push(json!({"ev": "panic", "id": format!("{id}-infofield-panic-{}", t.total), "class": "infofield", "pos": 0, "mask": [], "trunc": -1, "msg": msg.chars().take(120).collect::<String>()}));
                        }
                    }
                }
            };
            for (a, &(fa, va)) in singles.iter().enumerate() {
                let mut m1 = bytes.clone();
                set(&mut m1, fields[fa], va);
                run(&m1, &mut t, &mut lines, &mut extra);
                for &(fb, vb) in &singles[a + 1..] {
                    if fb == fa {
                        continue;
                    }
                    let mut m2 = m1.clone();
                    set(&mut m2, fields[fb], vb);
                    run(&m2, &mut t, &mut lines, &mut extra);
                }
            }
        }
        tallies.push(t);
        for t in &tallies {
            total_mutants += t.total;
            lines.push(json!({"ev": "agg", "id": format!("{id}-{}", t.class), "class": t.class, "total": t.total, "err": t.err, "ok": t.ok, "panic": t.panic}));
            summary.push(json!({"stream": id, "class": t.class, "total": t.total, "err": t.err, "ok": t.ok, "panic": t.panic}));
        }
        sh.push(lines.len() as u64 + bytes.len() as u64 / 8, lines);
    }
    let files = sh.write(a.num("shards", 12) as usize);
    println!(
        "{}",
        json!({"streams": nstreams, "mutants": total_mutants, "summary": summary,
               "files": files.iter().map(|p| p.to_string_lossy().to_string()).collect::<Vec<_>>()})
    );
}

/// fv wgen --streams <ndjson from WriterGen.tla>: valid streams written by the TLA+ specification itself
/// (incl. wasted bits, escaped partitions, the 5-bit Rice method, every header code kind) through the
/// library's parser.  Reports outcome classes; panics are C16 violations, wrong audio is reported.
pub fn cmd_wgen(a: &Args) {
    use std::io::BufRead;
    let f = std::fs::File::open(a.get("streams", "/verif/.work/wgen.ndjson")).expect("streams");
    let out = PathBuf::from(a.get("out", "/verif/.work/wgen"));
    std::fs::create_dir_all(&out).unwrap();
    let mut lines = vec![];
    let mut tally: std::collections::BTreeMap<String, usize> = Default::default();
    for (i, l) in std::io::BufReader::new(f).lines().enumerate() {
        let v: Value = serde_json::from_str(&l.unwrap()).unwrap();
        let bytes: Vec<u8> = v["bytes"].as_array().unwrap().iter().map(|x| x.as_u64().unwrap() as u8).collect();
        let expect: Vec<Vec<i64>> = v["expect"].as_array().unwrap().iter().map(|c| c.as_array().unwrap().iter().map(|x| x.as_i64().unwrap()).collect()).collect();
        let ch = expect.len().max(1);
        let (outcome, same) = match parse(&bytes) {
            Res::Err => ("err", true),
            Res::Panic(_) => ("panic", false),
            Res::Ok(frames) => {
                let n = expect[0].len();
                let ok = frames.len() == 1 && frames[0].len() == n * ch && (0..n).all(|t| (0..ch).all(|c| frames[0][t * ch + c] as i64 == expect[c][t]));
                ("ok", ok)
            }
        };
        let feat = &v["feat"];
        let unsupported = feat["wasted"].as_bool().unwrap() || feat["escape"].as_bool().unwrap() || feat["method5"].as_bool().unwrap()
            || feat["bigblock"].as_bool().unwrap() || feat["bigrate"].as_bool().unwrap();
        *tally.entry(format!("{outcome}/{}/{}", if same { "audio-ok" } else { "AUDIO-DIFFERS" }, if unsupported { "beyond-flacenc" } else { "plain" })).or_default() += 1;
        if outcome == "panic" || !same {
            lines.push(json!({"ev": if outcome == "panic" { "panic" } else { "wrong" }, "id": format!("g{i}-{outcome}"), "class": "spec-written", "pos": 0, "mask": [], "trunc": -1,
                              "msg": format!("features {feat}").chars().take(200).collect::<String>()}));
        }
    }
    let mut sh = Shards::new(&out, "wgen");
    lines.push(json!({"ev": "agg", "id": "wgen-all", "class": "spec-written", "total": tally.values().sum::<usize>(),
                      "err": tally.iter().filter(|(k, _)| k.starts_with("err")).map(|(_, v)| *v).sum::<usize>(),
                      "ok": tally.iter().filter(|(k, _)| k.starts_with("ok")).map(|(_, v)| *v).sum::<usize>(),
                      "panic": tally.iter().filter(|(k, _)| k.starts_with("panic")).map(|(_, v)| *v).sum::<usize>()}));
    sh.push(1, lines);
    let files = sh.write(1);
    println!("{}", json!({"tally": tally, "files": files.iter().map(|p| p.to_string_lossy().to_string()).collect::<Vec<_>>()}));
}
