//! NDJSON trace output, sharded by cost so that the TLC JVMs finish at about the same time.

use serde_json::Value;
use std::fs::File;
use std::io::{BufWriter, Write};
use std::path::{Path, PathBuf};

/// A group of lines that must stay together (one case = `case`, `blk`*, `end`).
pub struct Group {
    pub cost: u64,
    pub lines: Vec<Value>,
}

pub struct Shards {
    pub dir: PathBuf,
    pub prefix: String,
    pub groups: Vec<Group>,
}

impl Shards {
    pub fn new(dir: &Path, prefix: &str) -> Self {
        std::fs::create_dir_all(dir).expect("create out dir");
        Shards {
            dir: dir.to_path_buf(),
            prefix: prefix.to_string(),
            groups: vec![],
        }
    }

    pub fn push(&mut self, cost: u64, lines: Vec<Value>) {
        self.groups.push(Group { cost, lines });
    }

    /// Longest-processing-time-first assignment to `k` shards; returns the file names.
    pub fn write(mut self, k: usize) -> Vec<PathBuf> {
        let k = k.max(1).min(self.groups.len().max(1));
        let mut order: Vec<usize> = (0..self.groups.len()).collect();
        order.sort_by_key(|i| std::cmp::Reverse(self.groups[*i].cost));
        let mut load = vec![0u64; k];
        let mut assign: Vec<Vec<usize>> = vec![vec![]; k];
        for i in order {
            let (s, _) = load.iter().enumerate().min_by_key(|(_, l)| **l).unwrap();
            load[s] += self.groups[i].cost + 50;
            assign[s].push(i);
        }
        let mut files = vec![];
        for (s, idxs) in assign.iter_mut().enumerate() {
            idxs.sort_unstable();
            let path = self.dir.join(format!("{}_{:02}.ndjson", self.prefix, s));
            let mut w = BufWriter::new(File::create(&path).expect("create shard"));
            for i in idxs.iter() {
                for l in std::mem::take(&mut self.groups[*i].lines) {
                    serde_json::to_writer(&mut w, &l).unwrap();
                    w.write_all(b"\n").unwrap();
                }
            }
            w.flush().unwrap();
            files.push(path);
        }
        files
    }
}
