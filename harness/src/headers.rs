//! C02 header code spaces through the real frame-level entry point (see spec/TraceHeader.tla).

use crate::gen::{self, Cfg};
use crate::trace::Shards;
use crate::Args;
use flacenc::bitsink::ByteSink;
use flacenc::component::{BitRepr, StreamInfo};
use flacenc::error::Verify;
use flacenc::source::{Fill, FrameBuf};
use rand::Rng;
use serde_json::{json, Value};
use std::collections::BTreeSet;
use std::panic::{catch_unwind, AssertUnwindSafe};
use std::path::PathBuf;

pub fn cmd_headers(a: &Args) {
    let thorough = a.get("tier", "quick") == "thorough";
    let seed = a.num("seed", 1);
    let out = PathBuf::from(a.get("out", "/verif/.work/headers"));
    let shards = a.num("shards", 12) as usize;
    let cfg = Cfg { block_size: 4096, multithread: false, ..Cfg::default() }.to_encoder().into_verified().unwrap();
    let mut rng = gen::rng_for(seed, 12321);
    let mut fb = FrameBuf::with_size(1, 32767).unwrap();
    let mut events: Vec<Value> = vec![];
    let mut emit = |bs: usize, rate: usize, num: usize, fb: &mut FrameBuf, events: &mut Vec<Value>| {
        let dc = ((bs * 31 + rate * 7 + num) % 255) as i32 - 127;
        let id = format!("h{}", events.len());
        let r = catch_unwind(AssertUnwindSafe(|| -> Result<Vec<u8>, String> {
            fb.fill_interleaved(&vec![dc; bs]).map_err(|e| format!("fill: {e}"))?;
            let si = StreamInfo::new(rate, 1, 8).map_err(|e| format!("StreamInfo::new: {e}"))?;
            let f = flacenc::encode_fixed_size_frame(&cfg, fb, num, &si).map_err(|e| format!("{e}"))?;
            let mut s = ByteSink::new();
            f.write(&mut s).map_err(|e| format!("write: {e:?}"))?;
            Ok(s.as_slice().to_vec())
        }));
        let (outcome, bytes) = match r {
            Ok(Ok(b)) => ("ok".to_string(), b),
            Ok(Err(e)) => (format!("err: {e}"), vec![]),
            Err(_) => ("panic".to_string(), vec![]),
        };
        events.push(json!({"id": id, "bs": bs, "rate": rate, "num_hi": num >> 24, "num_lo": num & 0xFF_FFFF, "dc": dc, "outcome": outcome, "bytes": bytes}));
    };
    let mut numbers: BTreeSet<usize> = BTreeSet::new();
    // every block length (the frame number walks through 0..32766 at the same time)
    for bs in 1..=32767usize {
        emit(bs, 44100, bs - 1, &mut fb, &mut events);
        numbers.insert(bs - 1);
    }
    // every sample rate
    for rate in 1..=96000usize {
        emit(32 + rate % 7, rate, 32767 + rate % 36865, &mut fb, &mut events);
        numbers.insert(32767 + rate % 36865);
    }
    // frame numbers: windows around powers of two / UTF-8 length boundaries, stratified random values
    let win = if thorough { 4096 } else { 64 };
    for k in 7..=31u32 {
        let c = 1usize << k;
        for n in c.saturating_sub(win)..(c + win).min(1 << 31) {
            if numbers.insert(n) {
                emit(192, 48000, n, &mut fb, &mut events);
            }
        }
    }
    for _ in 0..(if thorough { 500_000 } else { 20_000 }) {
        let bits = rng.gen_range(1..=31u32);
        let n = rng.gen_range(0..(1usize << bits));
        if numbers.insert(n) {
            emit(4096, 96000, n, &mut fb, &mut events);
        }
    }
    let nev = events.len();
    let mut sh = Shards::new(&out, "hdr");
    for chunk in events.chunks(500) {
        sh.push(chunk.len() as u64, chunk.to_vec());
    }
    let files = sh.write(shards);
    println!(
        "{}",
        json!({"events": nev, "block_sizes": 32767, "rates": 96000, "frame_numbers": numbers.len(),
               "files": files.iter().map(|p| p.to_string_lossy().to_string()).collect::<Vec<_>>()})
    );
}
