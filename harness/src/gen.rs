//! Input-domain generators shared by the stream-level drivers (DESIGN section 4).
//! Everything is a pure function of the seed.

use flacenc::config;
use rand::rngs::StdRng;
use rand::Rng;
use rand::SeedableRng;
use serde::{Deserialize, Serialize};
use std::num::NonZeroUsize;

/// Flat, serialisable image of `flacenc::config::Encoder` (17 fields).
#[derive(Serialize, Deserialize, Clone, Debug, PartialEq)]
pub struct Cfg {
    /// the block size REQUESTED (the argument of the entry points)
    pub block_size: usize,
    /// the `block_size` field of the configuration when it differs from the request (0 = same); the
    /// documented examples pass a default configuration (4096) with another block-size argument
    #[serde(default)]
    pub field_bs: usize,
    pub multithread: bool,
    pub workers: Option<usize>,
    pub use_leftside: bool,
    pub use_rightside: bool,
    pub use_midside: bool,
    pub use_constant: bool,
    pub use_fixed: bool,
    pub use_lpc: bool,
    pub fixed_max_order: usize,
    /// None = BitCount, Some(p) = ApproxEnt{partitions: p}
    pub partitions: Option<usize>,
    pub lpc_order: usize,
    pub quant_precision: usize,
    pub use_direct_mse: bool,
    pub mae_steps: usize,
    /// None = Rectangle, Some(a) = Tukey{alpha: a}
    pub alpha: Option<f32>,
    pub max_parameter: usize,
}

impl Default for Cfg {
    fn default() -> Self {
        Cfg {
            field_bs: 0,
            block_size: 4096,
            multithread: false,
            workers: None,
            use_leftside: true,
            use_rightside: true,
            use_midside: true,
            use_constant: true,
            use_fixed: true,
            use_lpc: true,
            fixed_max_order: 4,
            partitions: Some(16),
            lpc_order: 10,
            quant_precision: 15,
            use_direct_mse: false,
            mae_steps: 0,
            alpha: Some(0.4),
            max_parameter: 14,
        }
    }
}

impl Cfg {
    pub fn to_encoder(&self) -> config::Encoder {
        let mut e = config::Encoder::default();
        e.block_size = if self.field_bs != 0 { self.field_bs } else { self.block_size };
        e.multithread = self.multithread;
        e.workers = self.workers.and_then(NonZeroUsize::new);
        e.stereo_coding.use_leftside = self.use_leftside;
        e.stereo_coding.use_rightside = self.use_rightside;
        e.stereo_coding.use_midside = self.use_midside;
        let s = &mut e.subframe_coding;
        s.use_constant = self.use_constant;
        s.use_fixed = self.use_fixed;
        s.use_lpc = self.use_lpc;
        s.fixed.max_order = self.fixed_max_order;
        s.fixed.order_sel = match self.partitions {
            None => config::OrderSel::BitCount,
            Some(p) => config::OrderSel::ApproxEnt { partitions: p },
        };
        s.qlpc.lpc_order = self.lpc_order;
        s.qlpc.quant_precision = self.quant_precision;
        s.qlpc.use_direct_mse = self.use_direct_mse;
        s.qlpc.mae_optimization_steps = self.mae_steps;
        s.qlpc.window = match self.alpha {
            None => config::Window::Rectangle,
            Some(a) => config::Window::Tukey { alpha: a },
        };
        s.prc.max_parameter = self.max_parameter;
        e
    }

    pub fn from_encoder(e: &config::Encoder) -> Cfg {
        let s = &e.subframe_coding;
        Cfg {
            field_bs: 0,
            block_size: e.block_size,
            multithread: e.multithread,
            workers: e.workers.map(NonZeroUsize::get),
            use_leftside: e.stereo_coding.use_leftside,
            use_rightside: e.stereo_coding.use_rightside,
            use_midside: e.stereo_coding.use_midside,
            use_constant: s.use_constant,
            use_fixed: s.use_fixed,
            use_lpc: s.use_lpc,
            fixed_max_order: s.fixed.max_order,
            partitions: match s.fixed.order_sel {
                config::OrderSel::BitCount => None,
                config::OrderSel::ApproxEnt { partitions } => Some(partitions),
                #[allow(unreachable_patterns)]
                _ => None,
            },
            lpc_order: s.qlpc.lpc_order,
            quant_precision: s.qlpc.quant_precision,
            use_direct_mse: s.qlpc.use_direct_mse,
            mae_steps: s.qlpc.mae_optimization_steps,
            alpha: match s.qlpc.window {
                config::Window::Rectangle => None,
                config::Window::Tukey { alpha } => Some(alpha),
                #[allow(unreachable_patterns)]
                _ => None,
            },
            max_parameter: s.prc.max_parameter,
        }
    }

    /// The documented ranges (property C07), independent of what the library verifies.
    pub fn documented_valid(&self, experimental: bool) -> bool {
        (32..=32767).contains(&self.block_size)
            && self.fixed_max_order <= 4
            && self.partitions.map_or(true, |p| (1..=64).contains(&p))
            && (1..=24).contains(&self.lpc_order)
            && (1..=15).contains(&self.quant_precision)
            && self.max_parameter <= 14
            && self.alpha.map_or(true, |a| (0.0..=1.0).contains(&a))
            && (experimental || (!self.use_direct_mse && self.mae_steps == 0))
    }
}

#[derive(Serialize, Deserialize, Clone, Debug)]
pub struct Geometry {
    pub ch: usize,
    pub bps: usize,
    pub rate: usize,
    pub bs: usize,
    pub n: usize,
}

pub const WIDTHS: [usize; 5] = [8, 12, 16, 20, 24];
pub const FAMILIES: [&str; 19] = [
    "silence", "dc", "dcmax", "dcmin", "altfull", "impulse", "step", "ramp", "poly", "sine",
    "noise_lo", "noise_mid", "noise_full", "cauchy", "riceadv", "thresh", "nearverb", "dcnoise", "nyqsmooth",
];
pub const RELATIONS: [&str; 5] = ["indep", "same", "inverted", "near", "mixed"];

pub fn rng_for(seed: u64, stream: u64) -> StdRng {
    StdRng::seed_from_u64(seed.wrapping_mul(0x9E37_79B9_7F4A_7C15).wrapping_add(stream))
}

fn clampw(v: i64, bps: usize) -> i32 {
    let hi = (1i64 << (bps - 1)) - 1;
    let lo = -(1i64 << (bps - 1));
    v.clamp(lo, hi) as i32
}

/// One channel of `n` samples from the named family.
pub fn channel(rng: &mut StdRng, family: &str, bps: usize, n: usize) -> Vec<i32> {
    let hi = (1i64 << (bps - 1)) - 1;
    let lo = -(1i64 << (bps - 1));
    let mut v = vec![0i32; n];
    match family {
        "silence" => {}
        "dc" => {
            let c = rng.gen_range(lo..=hi) as i32;
            v.iter_mut().for_each(|x| *x = c);
        }
        "dcmax" => v.iter_mut().for_each(|x| *x = hi as i32),
        "dcmin" => v.iter_mut().for_each(|x| *x = lo as i32),
        "altfull" => {
            // full-scale alternating sign, with a random period 1..3
            let p = rng.gen_range(1..=3usize);
            for (t, x) in v.iter_mut().enumerate() {
                *x = if (t / p) % 2 == 0 { hi as i32 } else { lo as i32 };
            }
        }
        "impulse" => {
            if n > 0 {
                let k = rng.gen_range(0..n);
                v[k] = if rng.gen_bool(0.5) { hi as i32 } else { lo as i32 };
                if rng.gen_bool(0.3) {
                    let k2 = rng.gen_range(0..n);
                    v[k2] = rng.gen_range(lo..=hi) as i32;
                }
            }
        }
        "step" => {
            let k = if n > 0 { rng.gen_range(0..n) } else { 0 };
            let a = rng.gen_range(lo..=hi) as i32;
            let b = rng.gen_range(lo..=hi) as i32;
            for (t, x) in v.iter_mut().enumerate() {
                *x = if t < k { a } else { b };
            }
        }
        f if f.starts_with("impnoise") => {
            // quiet noise whose Rice quotients under parameter k are about 0..8 (they add up to 2^16 and more over a
            // large block) plus ONE full-scale impulse whose quotient alone is 2^16 or more: 16-bit halves of
            // quotient sums carry into each other
            let k: u32 = f[8..].parse().unwrap_or(7);
            let a = ((1i64 << k) * 4).min(hi / 8).max(1);
            for x in v.iter_mut() {
                *x = rng.gen_range(-a..=a) as i32;
            }
            if n > 10 {
                let t = rng.gen_range(n / 4..n / 2);
                v[t] = if rng.gen_bool(0.5) { hi as i32 } else { lo as i32 };
            }
        }
        "burst" => {
            // a quiet block with near-full-scale noise in one or two 64-sample partitions: those partitions want a
            // Rice parameter of bits_per_sample - 1 or more while the subframe as a whole still beats verbatim
            let quiet = rng.gen_range(1..=3i64);
            for x in v.iter_mut() {
                *x = rng.gen_range(-quiet..=quiet) as i32;
            }
            let nparts = (n / 64).max(1);
            for _ in 0..rng.gen_range(1..=2) {
                let p = rng.gen_range(0..nparts);
                for x in v.iter_mut().skip(p * 64).take(64) {
                    *x = rng.gen_range(lo..=hi) as i32;
                }
            }
        }
        "nyqsmooth" => {
            // a smooth envelope modulated to the Nyquist frequency (or to a quarter of the sample rate): the ideal
            // predictor has LARGE NEGATIVE coefficients (-2, -1 / -3, -3, -1 / 0, -2, 0, -1), which do not fit low
            // coefficient precisions unless the quantiser clamps them
            let kind = rng.gen_range(0..3);
            let per = rng.gen_range(40.0..400.0f64);
            let amp = hi as f64 * rng.gen_range(0.2..0.9);
            let ph = rng.gen_range(0.0..6.28f64);
            for (t, x) in v.iter_mut().enumerate() {
                let e = match kind {
                    0 => (t as f64 / per + ph).sin(),
                    1 => ((t as f64 / per).fract() - 0.5) * 1.6,
                    _ => (t as f64 / per + ph).sin() * (t as f64 / (3.0 * per)).cos(),
                };
                let carrier = if kind == 1 { [1.0, 0.0, -1.0, 0.0][t % 4] } else if t % 2 == 0 { 1.0 } else { -1.0 };
                *x = clampw((e * carrier * amp) as i64 + rng.gen_range(-1..=1), bps);
            }
        }
        "ramp" => {
            let slope = rng.gen_range(-(hi / 64).max(1)..=(hi / 64).max(1));
            let off = rng.gen_range(lo / 2..=hi / 2);
            for (t, x) in v.iter_mut().enumerate() {
                // wraps into range in a saw-tooth manner
                let r = off + slope * t as i64;
                let span = hi - lo + 1;
                *x = ((r - lo).rem_euclid(span) + lo) as i32;
            }
        }
        "poly" => {
            let deg = rng.gen_range(2..=4);
            let c: Vec<f64> = (0..=deg).map(|_| rng.gen_range(-1.0..1.0)).collect();
            for (t, x) in v.iter_mut().enumerate() {
                let u = t as f64 / (n.max(2) - 1) as f64 * 2.0 - 1.0;
                let mut y = 0.0;
                for (k, ck) in c.iter().enumerate() {
                    y += ck * u.powi(k as i32);
                }
                *x = clampw((y / (deg as f64 + 1.0) * hi as f64 * 1.8) as i64, bps);
            }
        }
        "sine" => {
            let period = rng.gen_range(3.0..200.0f64);
            let amp = rng.gen_range(0.05..1.0f64) * hi as f64;
            let noise = rng.gen_range(0.0..0.05f64) * hi as f64;
            for (t, x) in v.iter_mut().enumerate() {
                let y = amp * (2.0 * std::f64::consts::PI * t as f64 / period).sin()
                    + noise * rng.gen_range(-1.0..1.0);
                *x = clampw(y as i64, bps);
            }
        }
        "quietnoise" => {
            // a few levels only: Rice-coded at 3..5 bits per sample, far below any width
            let a = rng.gen_range(3..=12i64);
            v.iter_mut().for_each(|x| *x = rng.gen_range(-a..=a) as i32);
        }
        "attack" => {
            // loud noise for the first 24..32 samples, then a quiet first-order autoregressive tail
            let head = rng.gen_range(24..=32usize).min(n);
            let a = (hi / 5).max(4);
            let q = rng.gen_range(8..=28i64);
            let mut state = 0f64;
            for t in 0..n {
                v[t] = if t < head {
                    rng.gen_range(-a..=a) as i32
                } else {
                    state = 0.9 * state + rng.gen_range(-q..=q) as f64;
                    (state as i64).clamp(lo, hi) as i32
                };
            }
        }
        "weakar" => {
            // weakly correlated: AR(10) with ten small equal coefficients (each far below 0.25, so the
            // quantiser's shift saturates), driven by moderate noise; the LPC subframe wins with tiny coefficients
            let a = (hi >> 5).max(8);
            let c = [0.09f64, 0.07, 0.05][rng.gen_range(0..3)];
            let mut x = vec![0f64; n];
            for t in 0..n {
                let mut acc = rng.gen_range(-a..=a) as f64;
                for k in 1..=10 {
                    if t >= k {
                        acc += c * x[t - k];
                    }
                }
                x[t] = acc;
                v[t] = (acc.round() as i64).clamp(lo, hi) as i32;
            }
        }
        "noise_lo" => {
            let a = (hi >> 10).max(1);
            v.iter_mut().for_each(|x| *x = rng.gen_range(-a..=a) as i32);
        }
        "noise_mid" => {
            let a = (hi >> 3).max(1);
            v.iter_mut().for_each(|x| *x = rng.gen_range(-a..=a) as i32);
        }
        "noise_full" => v.iter_mut().for_each(|x| *x = rng.gen_range(lo..=hi) as i32),
        "cauchy" => {
            let scale = rng.gen_range(1.0..(hi as f64 / 64.0).max(2.0));
            for x in v.iter_mut() {
                let u: f64 = rng.gen_range(-0.4999..0.4999);
                *x = clampw((scale * (std::f64::consts::PI * u).tan()) as i64, bps);
            }
        }
        "riceadv" => {
            // residual magnitudes placed so that partition sums of (e >> p) sit around 2^28 / k:
            // alternate +-A with A close to full scale, plus a few quiet partitions.
            let a = (hi - rng.gen_range(0..(hi / 8).max(1))).max(1);
            let quiet_every = rng.gen_range(2..=8usize);
            for (t, x) in v.iter_mut().enumerate() {
                let part = t / 64;
                *x = if part % quiet_every == 0 {
                    rng.gen_range(-2..=2)
                } else if t % 2 == 0 {
                    a as i32
                } else {
                    -(a as i32)
                };
            }
        }
        "thresh" => {
            // amplitude such that max|x| * sum|coef| straddles 2^31 for plausible coefficient sums
            // (15-bit precision: sum|coef| up to order * 2^14).
            let k = rng.gen_range(11..=(bps - 1).max(12).min(23)) as u32;
            let a = ((1i64 << k) + rng.gen_range(-3..=3)).clamp(1, hi);
            let period = rng.gen_range(2..=9usize);
            for (t, x) in v.iter_mut().enumerate() {
                let s = if (t / period) % 2 == 0 { 1 } else { -1 };
                *x = clampw(s * a + rng.gen_range(-1..=1), bps);
            }
        }
        "nearverb" => {
            // Threshold-directed: a random walk whose first differences cost exactly (bps - 1) bits
            // each under the largest Rice parameter, except J of them that cost bps bits.  The coded
            // size of the order-1 fixed predictor then sits within a few dozen bits of the verbatim
            // size, in 1-bit steps of J: estimate-based and actual-size-based selection disagree there.
            if n >= 8 {
                let k = 14usize.min(bps - 2);
                let q = (bps - k - 2) as i64; // quotient of the cheap samples (cost q + 1 + k = bps - 1)
                let mag = |quot: i64, rng: &mut StdRng| -> i64 {
                    // |e| whose folded value 2|e| (or 2|e| - 1) has the given quotient under parameter k
                    let lo = (quot << k) / 2 + 1;
                    let hi = (((quot + 1) << k) - 1) / 2;
                    rng.gen_range(lo..=hi.max(lo))
                };
                let expensive = (n as i64 - 60 + rng.gen_range(0..75)).clamp(0, n as i64 - 1) as usize;
                let mut x: i64 = 0;
                v[0] = 0;
                for t in 1..n {
                    let m = if t <= expensive { mag(q + 1, rng) } else { mag(q, rng) };
                    let up = if x + m > hi { false } else if x - m < lo { true } else { rng.gen_bool(0.5) };
                    x = if up { x + m } else { x - m };
                    v[t] = clampw(x, bps);
                }
            }
        }
        "dcnoise" | "dcedge" => {
            // Threshold-directed: a DC level L plus noise.  The LPC coefficients of such a signal have one
            // sign and sum to about 1.0, i.e. sum|coef| ~ 2^shift (2^15 at full precision), so that
            // max|x| * sum|coef| crosses 2^31 at L ~ 2^16 and 2^32 at L ~ 2^17: the window in which the
            // 32-bit fast path of the residual computation is *almost* applicable (lpc.rs compute_error).
            let e = if family == "dcedge" { rng.gen_range(15.7..16.3f64) } else { rng.gen_range(15.3..17.4f64) };
            let level = (2f64.powf(e) as i64).min(hi - hi / 4).max(1);
            let amp = ((level as f64) * if family == "dcedge" { rng.gen_range(0.12..0.22) } else { rng.gen_range(0.08..0.25) }) as i64 + 1;
            let sign = if rng.gen_bool(0.5) { 1 } else { -1 };
            for x in v.iter_mut() {
                *x = clampw(sign * (level + rng.gen_range(-amp..=amp)), bps);
            }
        }
        f if f.starts_with("nonstat") => {
            // Non-stationary noise: the loudness alternates between 64-sample stretches, quiet ones fit
            // a Rice parameter b, loud ones would want b + 3.  With a configured maximum parameter near
            // b the cheapest partition order differs from the one an unbounded search prefers (C13).
            let b: u32 = f[7..].parse().unwrap_or(2);
            let quiet = (1i64 << b).min(hi / 16).max(1);
            let loud = (1i64 << (b + 3)).min(hi / 2).max(2);
            let period = [64usize, 128, 192][rng.gen_range(0..3)];
            for (t, x) in v.iter_mut().enumerate() {
                let a = if (t / period) % 2 == 0 { quiet } else { loud };
                *x = rng.gen_range(-a..=a) as i32;
            }
        }
        "nearverb2" => {
            // Non-stationary noise whose coded size is within a few hundred bits of the verbatim size on LARGE
            // blocks: three full-scale 64-sample stretches, then a quieter one (different Rice parameters per
            // partition, predictor warm-up, partition order > 0).  The quiet level is searched with the Rice cost
            // formula so that the best of order 0 / order 1 lands in the window [-300, +900] bits around verbatim.
            let verb = (n * bps) as i64;
            let mut best: Option<(i64, Vec<i32>)> = None;
            let target = rng.gen_range(-300i64..=900);
            for step in 0..48 {
                let level = ((hi as f64) * (0.02 + 0.98 * (step as f64) / 47.0)) as i64;
                let mut c = vec![0i32; n];
                for (t, x) in c.iter_mut().enumerate() {
                    let a = if (t / 64) % 4 == 3 { level.max(1) } else { hi };
                    *x = rng.gen_range(-a..=a) as i32;
                }
                let d1: Vec<i32> = (0..n).map(|t| if t == 0 { 0 } else { clampw(c[t] as i64 - c[t - 1] as i64, 31) }).collect();
                let cost0 = *rice_cost_curve(&c, 14).iter().min().unwrap() as i64;
                let cost1 = *rice_cost_curve(&d1, 14).iter().min().unwrap() as i64 + bps as i64;
                let cost = cost0.min(cost1) + 6 + 8;
                let dist = (cost - verb - target).abs();
                if best.as_ref().map_or(true, |(d, _)| dist < *d) {
                    best = Some((dist, c));
                }
            }
            v = best.unwrap().1;
        }
        "fullsine" => {
            // exact full-scale sinusoid: predictors overshoot the sample range (sum of products beyond
            // bits_per_sample + shift bits)
            let period = FULLSINE_PERIODS[FULLSINE_PICK.with(|p| p.get()) % FULLSINE_PERIODS.len()];
            let _ = rng.gen_range(0..8);
            let max = hi as f64;
            for (t, x) in v.iter_mut().enumerate() {
                *x = ((t as f64 * 2.0 * std::f64::consts::PI / period).sin() * max) as i32;
            }
        }
        "wrap32" => {
            // The folded samples (= Rice quotients at parameter 0 under the order-0 predictor) add up to
            // 2^32 + delta: 32-bit accumulators of coded sizes wrap to a tiny value.  Needs 20/24 bit.
            let foldmax = (1i64 << bps) - 1; // fold(-2^(bps-1))
            let a = ((1i64 << 32) / foldmax) as usize;
            let delta: i64 = [0i64, 1, 2, 100, 4096, -1, -300, 65536][rng.gen_range(0..8)];
            let mult: i64 = if n >= 2 * a + 64 && rng.gen_bool(0.3) { 2 } else { 1 };
            // "flat" variant: no full-scale samples, the sum is spread evenly (every quotient is moderate, so
            // guards that look at the largest quotient do not see the overflow coming)
            let flat = (n as i64) * foldmax > mult * (1i64 << 32) + 70_000 && rng.gen_bool(0.4);
            let a = if flat { 0 } else { a * mult as usize };
            if n > a {
                let mut r = mult * (1i64 << 32) - a as i64 * foldmax + delta;
                let rest = n - a;
                for (i, x) in v.iter_mut().enumerate() {
                    if i < a {
                        *x = -(1i32 << (bps - 1));
                    } else {
                        let left = (n - i) as i64;
                        let f = if left == 1 { r } else { (r / left).min(foldmax) + i64::from(rng.gen_bool(0.5) && r / left + 1 <= foldmax && r > left) };
                        let f = f.clamp(0, foldmax.min(r.max(0)));
                        r -= f;
                        *x = if f % 2 == 0 { (f / 2) as i32 } else { (-(f + 1) / 2) as i32 };
                    }
                }
                let _ = rest;
                if rng.gen_bool(0.5) {
                    for i in (1..n).rev() {
                        v.swap(i, rng.gen_range(0..=i));
                    }
                }
            }
        }
        "ricebump" => {
            // The coded size as a function of the partition order has a LOCAL minimum at the 64-sample
            // scale, gets worse when neighbours are merged (they want different parameters; the merge
            // costs a little more than the 4-bit header it saves) and reaches its GLOBAL minimum at a
            // much coarser order.  Candidates are drawn and kept when the curve (computed here with
            // the Rice cost formula) really has that shape.
            let mut best: Option<Vec<i32>> = None;
            for _try in 0..300 {
                let m = rng.gen_range(52..=62usize);
                let j = rng.gen_range(0..=2u32);
                let shuffle = rng.gen_bool(0.5);
                let a_kind = rng.gen_range(0..3);
                let mut cand = vec![0i32; n];
                for (pi, part) in cand.chunks_mut(64).enumerate() {
                    if pi % 2 == 1 {
                        let mut b: Vec<i32> = (0..part.len()).map(|i| if i < m { 1 } else { -2 }).collect();
                        if shuffle {
                            for i in (1..b.len()).rev() {
                                b.swap(i, rng.gen_range(0..=i));
                            }
                        }
                        part.copy_from_slice(&b);
                    } else if a_kind == 1 {
                        for (i, x) in part.iter_mut().enumerate() {
                            *x = i32::from(i % 16 == 0 && rng.gen_bool(0.3));
                        }
                    }
                    for x in part.iter_mut() {
                        *x = clampw(i64::from(*x) << j, bps);
                    }
                }
                let curve = rice_cost_curve(&cand, 14);
                // curve[o] = bits at partition order o; look for: finer local minimum, worse neighbour, better far coarser
                let fine = curve.len() - 1;
                let bumpy = (1..=fine).any(|o| curve[o] < curve[o - 1] && curve[..o].iter().any(|c| *c < curve[o]));
                if bumpy {
                    best = Some(cand);
                    break;
                }
                if best.is_none() {
                    best = Some(cand);
                }
            }
            v = best.unwrap();
        }
        _ => panic!("unknown family {family}"),
    }
    v
}

pub const FULLSINE_PERIODS: [f64; 12] = [20.0, 36.0, 8.0, 3.3, 50.0, 7.0, 12.5, 100.0, 24.0, 16.0, 30.0, 5.0];
thread_local! {
    /// which period the next "fullsine" channel uses (set by the case generator, so that the periods are
    /// covered systematically and not by chance)
    pub static FULLSINE_PICK: std::cell::Cell<usize> = const { std::cell::Cell::new(0) };
}

/// Bits of the Rice-coded residual `res` (no warm-up) for every partition order 0..=max with
/// partitions of at least 1 sample, best parameter 0..=maxp per partition (4-bit method).
pub fn rice_cost_curve(res: &[i32], maxp: u32) -> Vec<u64> {
    let n = res.len();
    let mut out = vec![];
    let mut order = 0u32;
    while order <= 15 && n % (1usize << order) == 0 && (n >> order) >= 1 {
        let plen = n >> order;
        let mut total = 0u64;
        for part in res.chunks(plen) {
            let mut bestp = u64::MAX;
            for k in 0..=maxp {
                let mut bits = 4u64;
                for &e in part {
                    let u = if e >= 0 { 2 * e as u64 } else { (-2 * e as i64 - 1) as u64 };
                    bits += (u >> k) + 1 + u64::from(k);
                }
                bestp = bestp.min(bits);
            }
            total += bestp;
        }
        out.push(total);
        order += 1;
    }
    out
}

/// Multi-channel signal (per-channel vectors) with the given channel relation.
pub fn signal(
    rng: &mut StdRng,
    family: &str,
    relation: &str,
    ch: usize,
    bps: usize,
    n: usize,
) -> Vec<Vec<i32>> {
    let mut out: Vec<Vec<i32>> = Vec::with_capacity(ch);
    for c in 0..ch {
        let v = if c == 0 {
            channel(rng, family, bps, n)
        } else {
            match relation {
                "same" => out[0].clone(),
                "inverted" => out[0].iter().map(|x| clampw(-(*x as i64), bps)).collect(),
                "near" => out[0]
                    .iter()
                    .map(|x| clampw(*x as i64 + rng.gen_range(-2..=2), bps))
                    .collect(),
                "mixed" => {
                    let f = FAMILIES[rng.gen_range(0..FAMILIES.len())];
                    channel(rng, f, bps, n)
                }
                _ => channel(rng, family, bps, n),
            }
        };
        out.push(v);
    }
    out
}

pub fn interleave(chs: &[Vec<i32>]) -> Vec<i32> {
    let n = chs.first().map_or(0, Vec::len);
    let mut out = Vec::with_capacity(n * chs.len());
    for t in 0..n {
        for c in chs {
            out.push(c[t]);
        }
    }
    out
}

pub fn pick<'a, T: Copy>(rng: &mut StdRng, xs: &'a [T]) -> T {
    xs[rng.gen_range(0..xs.len())]
}

pub fn rate(rng: &mut StdRng) -> usize {
    match rng.gen_range(0..8) {
        0 => pick(
            rng,
            &[
                88200usize, 176400 / 2, 192000 / 2, 8000, 16000, 22050, 24000, 32000, 44100, 48000,
                96000,
            ],
        ),
        1 => rng.gen_range(1..=255usize) * 1000 % 96001,
        2 => (rng.gen_range(1..=9600usize)) * 10,
        3 => rng.gen_range(1..=65535usize),
        4 => {
            // above 65535 and not divisible by 10 -> only STREAMINFO can carry it
            let r = rng.gen_range(65536..=96000usize);
            if r % 10 == 0 {
                r + 1
            } else {
                r
            }
        }
        5 => pick(rng, &[1usize, 96000, 65535, 65536, 65540, 255000 % 96001, 9]),
        _ => rng.gen_range(1..=96000usize),
    }
    .max(1)
}

/// Random configuration inside the documented ranges (single-thread by default).
pub fn config(rng: &mut StdRng, bs: usize) -> Cfg {
    let mut c = Cfg {
        block_size: bs,
        ..Cfg::default()
    };
    if rng.gen_bool(0.25) {
        return c;
    }
    c.use_leftside = rng.gen_bool(0.8);
    c.use_rightside = rng.gen_bool(0.8);
    c.use_midside = rng.gen_bool(0.8);
    c.use_constant = rng.gen_bool(0.85);
    c.use_fixed = rng.gen_bool(0.8);
    c.use_lpc = rng.gen_bool(0.8);
    c.fixed_max_order = rng.gen_range(0..=4);
    c.partitions = match rng.gen_range(0..4) {
        0 => None,
        1 => Some(pick(rng, &[1usize, 2, 64, 63])),
        2 => Some(rng.gen_range(1..=64)),
        _ => Some(16),
    };
    c.lpc_order = match rng.gen_range(0..4) {
        0 => pick(rng, &[1usize, 2, 24, 23, 12, 32 - 8]),
        _ => rng.gen_range(1..=24),
    };
    c.quant_precision = match rng.gen_range(0..3) {
        0 => pick(rng, &[1usize, 2, 15, 14]),
        _ => rng.gen_range(1..=15),
    };
    c.alpha = match rng.gen_range(0..5) {
        0 => None,
        1 => Some(0.0),
        2 => Some(1.0),
        3 => Some(rng.gen_range(0.0..=1.0)),
        _ => Some(0.4),
    };
    c.max_parameter = match rng.gen_range(0..4) {
        0 => pick(rng, &[0usize, 1, 2, 14, 13]),
        1 => rng.gen_range(0..=14),
        _ => 14,
    };
    c
}

pub fn block_size(rng: &mut StdRng, small: bool) -> usize {
    if small {
        match rng.gen_range(0..4) {
            0 => pick(rng, &[32usize, 33, 63, 64, 65, 128, 192, 255, 256, 257]),
            1 => rng.gen_range(32..=96),
            2 => pick(rng, &[64usize, 128, 192, 256, 512, 576]),
            _ => rng.gen_range(32..=600),
        }
    } else {
        match rng.gen_range(0..3) {
            0 => pick(rng, &[1152usize, 2304, 4096, 4608, 16384, 32767, 1024, 2048]),
            1 => rng.gen_range(600..=4700),
            _ => rng.gen_range(32..=32767),
        }
    }
}

pub fn length(rng: &mut StdRng, bs: usize, max_frames: usize) -> usize {
    let k = rng.gen_range(0..max_frames.max(1));
    match rng.gen_range(0..10) {
        0 => pick(rng, &[0usize, 1, 15, 16, 17]),
        1 => bs - 1,
        2 => bs,
        3 => bs + 1,
        4 => bs + pick(rng, &[15usize, 16, 17]),
        5 => 2 * bs,
        6 => k * bs + rng.gen_range(1..16),
        _ => k * bs + rng.gen_range(0..bs),
    }
}
