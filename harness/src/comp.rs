//! C18 / C08 / C15 component-level driver: public constructors over grids of consistent and
//! inconsistent arguments; every constructed component is verified, written to both in-memory
//! sinks, counted, parsed back by the library's parser; the bytes go to TLC (TraceComp.tla),
//! which parses them with FlacFormat.tla and recomputes the size from the structure.

use crate::gen;
use crate::trace::Shards;
use crate::Args;
use flacenc::bitsink::{BitSink, MemSink};
use flacenc::component::parser;
use flacenc::component::{
    BitRepr, ChannelAssignment, Constant, FixedLpc, Frame, FrameHeader, FrameOffset, Lpc, MetadataBlockData,
    QuantizedParameters, Residual, StreamInfo, SubFrame, Verbatim,
};
use flacenc::error::{Verify, VerifyError};
use rand::Rng;
use serde_json::{json, Value};
use std::collections::BTreeSet;
use std::panic::{catch_unwind, AssertUnwindSafe};
use std::path::PathBuf;

type NomErr<'a> = nom::error::Error<(&'a [u8], usize)>;

/// Counts bits without storing them (for components of 2^31 bits and more).
pub struct CountSink(pub u128);
impl BitSink for CountSink {
    type Error = std::convert::Infallible;
    fn align_to_byte(&mut self) -> Result<usize, Self::Error> {
        let pad = ((8 - self.0 % 8) % 8) as usize;
        self.0 += pad as u128;
        Ok(pad)
    }
    fn write_lsbs<T: flacenc::bitsink::Bits>(&mut self, _v: T, n: usize) -> Result<(), Self::Error> {
        self.0 += n as u128;
        Ok(())
    }
    fn write_msbs<T: flacenc::bitsink::Bits>(&mut self, _v: T, n: usize) -> Result<(), Self::Error> {
        self.0 += n as u128;
        Ok(())
    }
    fn write<T: flacenc::bitsink::Bits>(&mut self, _v: T) -> Result<(), Self::Error> {
        self.0 += 8 * std::mem::size_of::<T>() as u128;
        Ok(())
    }
    fn write_zeros(&mut self, n: usize) -> Result<(), Self::Error> {
        self.0 += n as u128;
        Ok(())
    }
}

fn limbs(x: u128) -> (i64, i64) {
    ((x >> 24).min(2147483647) as i64, (x & 0xFF_FFFF) as i64)
}

pub struct Obs {
    pub lines: Vec<Value>,
    pub classes: BTreeSet<String>,
    pub n: usize,
    pub outcomes: BTreeSet<String>,
}

/// Writes that fail part-way: thread-local scratch buffers must not leak into the next component.
fn failing_writes(k: usize) {
    let _ = catch_unwind(AssertUnwindSafe(|| {
        // a frame into a sink that rejects an operation (its header goes through an internal sink and succeeds) ...
        if let Ok(h) = FrameHeader::new(64, ChannelAssignment::Independent(1), 16, 44100, FrameOffset::Frame(5)) {
            let s: Vec<i32> = (0..64).map(|i| (i * 37 % 200) as i32 - 100).collect();
            if let Ok(v) = Verbatim::new(&s, 16) {
                if let Ok(f) = Frame::new(h, vec![SubFrame::from(v)].into_iter()) {
                    let mut u = crate::sink::UserSink::new(Some(k % 5), false);
                    let _ = f.write(&mut u);
                }
            }
        }
        // ... and LAST (so that nothing repairs the state afterwards) header writes that fail: into a sink that
        // rejects its first or second operation, or because the header cannot carry its sample number
        if let Ok(h) = FrameHeader::new(64, ChannelAssignment::Independent(1), 16, 44100, FrameOffset::Frame(5)) {
            let mut u = crate::sink::UserSink::new(Some(k % 2), false);
            let _ = h.write(&mut u);
        }
        if k % 2 == 0 {
            if let Ok(mut h) = FrameHeader::new(192, ChannelAssignment::Independent(2), 16, 44100, FrameOffset::Frame(3)) {
                h.set_frame_offset(FrameOffset::StartSample(1 << 36));
                let mut sink = flacenc::bitsink::ByteSink::new();
                let _ = h.write(&mut sink);
            }
        }
    }));
}

impl Obs {
    /// (see `failing_writes`)
    /// `make` builds the component; `parse` re-parses `bytes` with the library's parser and returns
    /// the tree, or None on a parse error.
    #[allow(clippy::too_many_arguments)]
    fn observe<T: BitRepr + Verify + std::fmt::Debug>(
        &mut self,
        kind: &str,
        args: String,
        n: usize,
        bps: usize,
        ord: usize,
        extra: Value,
        make: impl FnOnce() -> Result<T, VerifyError>,
        parse: impl Fn(&[u8]) -> Option<(String, Vec<u8>)>,
    ) -> Option<T> {
        let id = format!("{kind}-{}", self.n);
        self.n += 1;
        // every seventh constructed component is preceded, on this thread, by writes that fail part-way (a header
        // that cannot carry its sample number, a header and a frame into a sink that rejects an operation)
        if self.n % 7 == 3 {
            failing_writes(self.n);
        }
        let made = catch_unwind(AssertUnwindSafe(make));
        let mut ev = json!({"ev": "ctor", "id": id, "kind": kind, "args": args, "n": n, "bps": bps, "ord": ord, "x": extra,
                            "outcome": "", "verify": "na", "write8": "na", "write64": "na", "count_hi": -1, "count_lo": -1,
                            "nbits_hi": -1, "nbits_lo": -1, "bytes": [], "same64": true, "parse": "na"});
        let ret = match made {
            Err(_) => {
                ev["outcome"] = json!("panic");
                None
            }
            Ok(Err(e)) => {
                ev["outcome"] = json!("err");
                ev["detail"] = json!(format!("{e}"));
                None
            }
            Ok(Ok(c)) => {
                ev["outcome"] = json!("ok");
                ev["verify"] = json!(match catch_unwind(AssertUnwindSafe(|| c.verify())) {
                    Ok(Ok(())) => "ok".to_string(),
                    Ok(Err(e)) => {
                        ev["verify_detail"] = json!(format!("{e}"));
                        "err".to_string()
                    }
                    Err(_) => "panic".to_string(),
                });
                let count = catch_unwind(AssertUnwindSafe(|| c.count_bits()));
                match count {
                    Err(_) => {
                        ev["write8"] = json!("countpanic");
                    }
                    Ok(cnt) => {
                        let (h, l) = limbs(cnt as u128);
                        ev["count_hi"] = json!(h);
                        ev["count_lo"] = json!(l);
                        // what is actually written is counted first (cheap); only components of at most 2^16 bits by
                        // BOTH measures are materialised and handed to TLC
                        let counted_first = catch_unwind(AssertUnwindSafe(|| {
                            let mut s = CountSink(0);
                            c.write(&mut s).map(|_| s.0).unwrap_or(u128::MAX)
                        }))
                        .unwrap_or(u128::MAX);
                        if cnt > (1usize << 16) || (counted_first != u128::MAX && counted_first > (1u128 << 16)) {
                            // too large to materialise: count the written bits only
                            let r = catch_unwind(AssertUnwindSafe(|| {
                                let mut s = CountSink(0);
                                c.write(&mut s).map(|_| s.0).map_err(|e| format!("{e:?}"))
                            }));
                            match r {
                                Ok(Ok(bits)) => {
                                    let (h, l) = limbs(bits);
                                    ev["nbits_hi"] = json!(h);
                                    ev["nbits_lo"] = json!(l);
                                    ev["write8"] = json!("counted");
                                    ev["write64"] = json!("counted");
                                }
                                Ok(Err(e)) => {
                                    ev["write_detail"] = json!(e);
                                    ev["write8"] = json!("err")
                                }
                                Err(_) => ev["write8"] = json!("panic"),
                            }
                        } else {
                            let r8 = catch_unwind(AssertUnwindSafe(|| {
                                let mut s = MemSink::<u8>::new();
                                c.write(&mut s).map(|_| (s.len(), s.as_slice().to_vec())).map_err(|e| format!("{e:?}"))
                            }));
                            let r64 = catch_unwind(AssertUnwindSafe(|| {
                                let mut s = MemSink::<u64>::new();
                                c.write(&mut s)
                                    .map(|_| {
                                        let mut b = vec![0u8; (s.len() + 7) / 8];
                                        s.write_to_byte_slice(&mut b);
                                        (s.len(), b)
                                    })
                                    .map_err(|e| format!("{e:?}"))
                            }));
                            match &r8 {
                                Ok(Ok((len, bytes))) => {
                                    let (h, l) = limbs(*len as u128);
                                    ev["nbits_hi"] = json!(h);
                                    ev["nbits_lo"] = json!(l);
                                    ev["write8"] = json!("ok");
                                    ev["bytes"] = json!(bytes);
                                    // identity of the parsed component = it re-serialises to the same bytes
                                    // (Debug output also shows unobservable stale fields of re-labelled headers)
                                    ev["parse"] = json!(match catch_unwind(AssertUnwindSafe(|| parse(bytes))) {
                                        Ok(Some((_t, rewritten))) => if &rewritten == bytes { "same".to_string() } else { "diff".to_string() },
                                        Ok(None) => "err".to_string(),
                                        Err(_) => "panic".to_string(),
                                    });
                                }
                                Ok(Err(e)) => {
                                    ev["write_detail"] = json!(e);
                                    ev["write8"] = json!("err")
                                }
                                Err(_) => ev["write8"] = json!("panic"),
                            }
                            match &r64 {
                                Ok(Ok((len, bytes))) => {
                                    ev["write64"] = json!("ok");
                                    ev["same64"] = json!(matches!(&r8, Ok(Ok((l8, b8))) if l8 == len && b8 == bytes));
                                }
                                Ok(Err(_)) => ev["write64"] = json!("err"),
                                Err(_) => ev["write64"] = json!("panic"),
                            }
                        }
                    }
                }
                Some(c)
            }
        };
        self.outcomes.insert(format!("{kind}:{}", ev["outcome"].as_str().unwrap()));
        self.lines.push(ev);
        ret
    }
}

/// Debug rendering and re-serialisation of a parsed component
fn dbg_and_bytes<T: BitRepr + std::fmt::Debug>(c: &T) -> (String, Vec<u8>) {
    let mut s = MemSink::<u8>::new();
    let _ = c.write(&mut s);
    (format!("{c:?}"), s.as_slice().to_vec())
}

fn parse_sub(n: usize, bps: usize) -> impl Fn(&[u8]) -> Option<(String, Vec<u8>)> {
    move |b: &[u8]| {
        let r = parser::subframe::<NomErr>(n, bps)((b, 0));
        r.ok().map(|(_, s)| match s {
            SubFrame::Constant(c) => dbg_and_bytes(&c),
            SubFrame::Verbatim(c) => dbg_and_bytes(&c),
            SubFrame::FixedLpc(c) => dbg_and_bytes(&c),
            SubFrame::Lpc(c) => dbg_and_bytes(&c),
        })
    }
}

fn mk_residual(rng: &mut rand::rngs::StdRng, po: usize, bs: usize, warm: usize, pmax: u8, qmax: u32) -> (Vec<u8>, Vec<u32>, Vec<u32>) {
    let np = 1usize << po;
    let params: Vec<u8> = (0..np).map(|_| rng.gen_range(0..=pmax)).collect();
    let plen = (bs / np).max(1);
    let mut q = vec![0u32; bs];
    let mut r = vec![0u32; bs];
    for t in warm.min(bs)..bs {
        let p = params[(t / plen).min(np - 1)];
        q[t] = if qmax == 0 { 0 } else { rng.gen_range(0..=qmax) };
        r[t] = if p == 0 { 0 } else { rng.gen_range(0..(1u32 << p)) };
    }
    (params, q, r)
}

pub fn cmd_comp(a: &Args) {
    let thorough = a.get("tier", "quick") == "thorough";
    let seed = a.num("seed", 1);
    let out = PathBuf::from(a.get("out", "/verif/.work/comp"));
    let shards = a.num("shards", 12) as usize;
    let mut o = Obs { lines: vec![], classes: BTreeSet::new(), n: 0, outcomes: BTreeSet::new() };
    let mut rng = gen::rng_for(seed, 60606);
    let big = usize::MAX;

    // ---------------------------------------------------------------- Residual::new
    let mut res_args: Vec<(usize, usize, usize, Vec<u8>, Vec<u32>, Vec<u32>, String)> = vec![];
    for &bs in &[16usize, 32, 64, 192, 576] {
        for po in 0..=4usize {
            if bs % (1 << po) != 0 {
                continue;
            }
            for &warm in &[0usize, 1, 4, bs >> po] {
                for &(pmax, qmax) in &[(14u8, 3u32), (0, 40), (5, 0), (14, 300)] {
                    let (p, q, r) = mk_residual(&mut rng, po, bs, warm, pmax, qmax);
                    res_args.push((po, bs, warm, p, q, r, "consistent".into()));
                }
            }
        }
    }
    // inconsistent / boundary
    {
        let (p, q, r) = mk_residual(&mut rng, 2, 64, 2, 10, 5);
        let mut push = |po: usize, bs: usize, warm: usize, p: &[u8], q: &[u32], r: &[u32], why: &str| {
            res_args.push((po, bs, warm, p.to_vec(), q.to_vec(), r.to_vec(), why.to_string()));
        };
        push(2, 64, 2, &p[..1], &q, &r, "too few rice parameters");
        push(2, 64, 2, &[], &q, &r, "no rice parameters");
        push(2, 64, 2, &[p.clone(), p.clone()].concat(), &q, &r, "too many rice parameters");
        push(3, 64, 0, &[1], &q, &r, "one parameter for order 3");
        push(2, 64, 2, &p, &q[..63], &r, "quotients shorter than block");
        push(2, 64, 2, &p, &q, &r[..10], "remainders shorter");
        push(2, 64, 2, &p, &[], &[], "empty quotients");
        push(2, 64, 65, &p, &q, &r, "warm-up longer than block");
        push(2, 64, 17, &p, &q, &r, "warm-up longer than a partition");
        push(2, 64, big, &p, &q, &r, "warm-up usize::MAX");
        push(2, 0, 0, &p, &[], &[], "block size 0");
        push(2, 63, 0, &p, &q[..63], &r[..63], "block not divisible");
        push(2, 3, 0, &p, &q[..3], &r[..3], "block smaller than partition count");
        push(7, 64, 0, &[1u8; 128], &q, &r, "more partitions than samples");
        for po in [5usize, 15, 16, 31, 32, 63, 64, 200, big] {
            push(po, 64, 0, &p, &q, &r, "partition order out of range");
        }
        let mut p15 = p.clone();
        p15[1] = 15;
        push(2, 64, 2, &p15, &q, &r, "parameter 15 (escape code)");
        p15[1] = 16;
        push(2, 64, 2, &p15, &q, &r, "parameter 16");
        p15[1] = 31;
        push(2, 64, 2, &p15, &q, &r, "parameter 31");
        p15[1] = 32;
        push(2, 64, 2, &p15, &q, &r, "parameter 32");
        p15[1] = 200;
        push(2, 64, 2, &p15, &q, &r, "parameter 200");
        let mut rbad = r.clone();
        rbad[40] = 1 << 14;
        push(2, 64, 2, &p, &q, &rbad, "remainder not below 2^parameter");
        let mut qbad = q.clone();
        qbad[0] = 3;
        push(2, 64, 2, &p, &qbad, &r, "non-zero quotient in the warm-up");
        // warm-up slots holding values that only LOOK like zero after 32-bit arithmetic on (quotient << parameter)
        for (slot, qv) in [(0usize, 1u32 << 31), (1, 1 << 31), (0, 1 << (32 - p[0].max(1) as u32)), (1, 3 << (32 - p[0].max(1) as u32).min(30)), (0, u32::MAX), (1, 1 << 18), (0, 1 << 22)] {
            let mut qb = q.clone();
            qb[slot] = qv;
            push(2, 64, 2, &p, &qb, &r, &format!("warm-up slot {slot} holds quotient {qv}"));
            let mut rb = r.clone();
            rb[slot] = 1;
            push(2, 64, 2, &p, &q, &rb, &format!("warm-up slot {slot} holds remainder 1"));
        }
        for pp in [1u8, 4, 14] {
            let pv = vec![pp; 4];
            let (_, q2, r2) = mk_residual(&mut rng, 2, 64, 2, pp, 3);
            let mut qb = q2.clone();
            qb[1] = 1 << (32 - pp as u32);
            push(2, 64, 2, &pv, &qb, &r2, &format!("warm-up quotient 2^(32-{pp}) under parameter {pp}"));
        }
        push(0, 65536, 0, &[3], &vec![0u32; 65536], &vec![1u32; 65536], "block size 65536");
        push(0, 70000, 0, &[3], &vec![0u32; 70000], &vec![1u32; 70000], "block size 70000");
        // quotient sums around 2^32 (SIMD vs scalar sum switch): only counted, never materialised
        for &(qv, bs) in &[(65535u32, 65535usize), (65536, 65535), (1 << 20, 4096), ((1 << 20) - 1, 4096), (1 << 31, 16), (u32::MAX, 16), (u32::MAX, 2)] {
            let mut qq = vec![qv; bs];
            qq[0] = 0;
            let rr = vec![0u32; bs];
            push(0, bs, 1, &[0], &qq, &rr, "huge quotients");
        }
        // one quotient of 2^16 and more among many small ones (sums whose 16-bit halves carry into each other)
        for &(spike, small, bs) in &[(65536u32, 17u32, 4096usize), (65539, 9, 8192), (131071, 33, 2048), (1 << 17, 255, 512), (70000, 65535, 64)] {
            let mut qq = vec![small; bs];
            qq[0] = 0;
            qq[bs / 3] = spike;
            let rr = vec![0u32; bs];
            push(0, bs, 1, &[0], &qq, &rr, "one large quotient among many small ones");
        }
    }
    for (po, bs, warm, p, q, r, why) in res_args {
        o.classes.insert(format!("residual/{why}/{po}/{}", bs.min(70000)));
        let desc = format!("Residual::new(order={po}, block={bs}, warmup={warm}, {} params, {} quotients, {} remainders) [{why}]", p.len(), q.len(), r.len());
        let vals: Vec<i64> = if bs <= 600 && p.len() == (1usize << po.min(20)) && q.len() == bs && r.len() == bs && bs % p.len() == 0 && p.iter().all(|x| *x <= 14) && q.iter().all(|x| *x < (1 << 15)) {
            let plen = bs / p.len();
            (warm.min(bs)..bs).map(|t| { let u = ((q[t] as i64) << p[t / plen]) | r[t] as i64; if u % 2 == 0 { u / 2 } else { -((u + 1) / 2) } }).collect()
        } else { vec![] };
        let check_vals = !vals.is_empty();
        o.observe("residual", desc, bs, 0, warm, json!({"why": why, "vals": vals, "check": check_vals}), || Residual::new(po, bs, warm, &p, &q, &r), |b| {
            parser::residual::<NomErr>(bs, warm)((b, 0)).ok().map(|(_, x)| dbg_and_bytes(&x))
        });
    }

    // ---------------------------------------------------------------- QuantizedParameters::new
    let coef = |k: usize| -> Vec<i16> { (0..k).map(|i| ((i as i16 * 37) % 200) - 100).collect() };
    let mut qlps: Vec<QuantizedParameters> = vec![];
    for (coefs, order, shift, prec) in [
        (coef(1), 1usize, 0i8, 8usize), (coef(2), 2, 7, 9), (coef(8), 8, 15, 12), (coef(24), 24, 3, 15), (coef(32), 32, 3, 15),
        (coef(0), 0, 0, 8), (coef(1), 2, 0, 7), (coef(2), 1, 0, 7), (coef(3), 0, 0, 7), (coef(0), 3, 0, 7), (coef(25), 25, 0, 7),
        (coef(33), 33, 0, 7), (coef(40), 40, 0, 7), (coef(2), 100, 0, 7), (coef(2), big, 0, 7),
        (coef(2), 2, -1, 7), (coef(2), 2, -16, 7), (coef(2), 2, -128, 7), (coef(2), 2, 16, 7), (coef(2), 2, 127, 7),
        (coef(2), 2, 0, 0), (coef(2), 2, 0, 1), (coef(2), 2, 0, 16), (coef(2), 2, 0, 100), (coef(2), 2, 0, big),
        (vec![100, -100], 2, 0, 3), (vec![i16::MAX, i16::MIN], 2, 0, 15), (vec![i16::MAX, i16::MIN], 2, 0, 16),
    ]
    .into_iter()
    .chain((1usize..=15).flat_map(|p| {
        // coefficients at and just beyond both ends of the two's-complement range of every precision
        let hi = (1i32 << (p - 1)) - 1;
        let lo = -(1i32 << (p - 1));
        let c = |x: i32| x.clamp(i16::MIN as i32, i16::MAX as i32) as i16;
        vec![
            (vec![c(hi), c(lo)], 2usize, 1i8, p), (vec![c(hi + 1)], 1, 0, p), (vec![c(lo - 1)], 1, 0, p),
            (vec![0, c(hi + 1), 0], 3, 2, p), (vec![c(lo)], 1, 15, p),
        ]
    })) {
        o.classes.insert(format!("qlp/{}/{}/{}/{}", coefs.len().min(41), order.min(101), shift, prec.min(101)));
        let desc = format!("QuantizedParameters::new({} coefs, order={order}, shift={shift}, precision={prec})", coefs.len());
        let id = format!("qlp-{}", o.n);
        o.n += 1;
        let r = catch_unwind(AssertUnwindSafe(|| QuantizedParameters::new(&coefs, order, shift, prec)));
        let (outcome, verify) = match &r {
            Err(_) => ("panic", "na".to_string()),
            Ok(Err(_)) => ("err", "na".to_string()),
            Ok(Ok(q)) => ("ok", match catch_unwind(AssertUnwindSafe(|| q.verify())) { Ok(Ok(())) => "ok".into(), Ok(Err(_)) => "err".into(), Err(_) => "panic".into() }),
        };
        o.outcomes.insert(format!("qlp:{outcome}"));
        o.lines.push(json!({"ev": "ctor", "id": id, "kind": "qlp", "args": desc, "n": 0, "bps": 0, "ord": order.min(1000), "x": {"prec": prec.min(1000), "shift": shift, "coefs_fit": coefs.iter().all(|c| prec >= 1 && prec <= 16 && (*c as i32) < (1i32 << (prec - 1)) && (*c as i32) >= -(1i32 << (prec - 1)))},
                             "outcome": outcome, "verify": verify, "write8": "na", "write64": "na", "count_hi": -1, "count_lo": -1, "nbits_hi": -1, "nbits_lo": -1, "bytes": [], "same64": true, "parse": "na"}));
        if let Ok(Ok(q)) = r {
            qlps.push(q);
        }
    }

    // ---------------------------------------------------------------- Constant / Verbatim
    for &bs in &[0usize, 1, 15, 16, 192, 4096, 65535, 65536, big] {
        for &bps in &[0usize, 1, 4, 8, 9, 12, 13, 16, 17, 20, 24, 25, 28, 29, 32, 33, 64, big] {
            let dcs: Vec<i32> = if bps >= 1 && bps <= 31 {
                vec![0, -1, (1i64 << (bps - 1)) as i32 - 1, -(1i64 << (bps - 1)) as i32, (1i64 << (bps - 1)).min(i32::MAX as i64) as i32]
            } else {
                vec![0, i32::MAX, i32::MIN]
            };
            for dc in dcs {
                if !thorough && (bs % 7 + bps % 5 + dc.unsigned_abs() as usize % 3) % 3 != 0 && !(bs == 192) {
                    continue;
                }
                o.classes.insert(format!("constant/{}/{}", bs.min(65537), bps.min(65)));
                let desc = format!("Constant::new(block={bs}, dc={dc}, bps={bps})");
                o.observe("constant", desc, bs.min(70000), bps.min(1000), 0, json!({"dc": dc}), || Constant::new(bs, dc, bps), parse_sub(bs, bps));
            }
        }
    }
    for &len in &[0usize, 1, 15, 16, 33, 192, 65535, 65536] {
        for &bps in &[0usize, 1, 8, 9, 12, 16, 17, 24, 25, 32, 33, big] {
            let hi = if (1..=31).contains(&bps) { (1i64 << (bps - 1)) - 1 } else { 100 };
            let samples: Vec<i32> = (0..len).map(|i| ((i as i64 * 7919) % (2 * hi + 1) - hi) as i32).collect();
            let mut variants = vec![(samples.clone(), "in range")];
            if len > 0 && (1..=31).contains(&bps) {
                let mut s2 = samples.clone();
                s2[len / 2] = (hi + 1).min(i32::MAX as i64) as i32;
                variants.push((s2, "one sample out of range"));
                let mut s3 = samples;
                s3[0] = (-hi - 1) as i32;
                variants.push((s3, "most negative value"));
            }
            for (s, why) in variants {
                if len >= 65535 && why != "in range" {
                    continue;
                }
                o.classes.insert(format!("verbatim/{}/{}/{why}", len, bps.min(65)));
                let desc = format!("Verbatim::new({len} samples [{why}], bps={bps})");
                o.observe("verbatim", desc, len, bps.min(1000), 0, json!({"why": why, "samples": if len <= 300 { s.clone() } else { vec![] }, "check": len <= 300}), || Verbatim::new(&s, bps), parse_sub(len, bps));
            }
        }
    }

    // ---------------------------------------------------------------- FixedLpc / Lpc
    for &bs in &[16usize, 64, 192] {
        for wl in 0..=5usize {
            for &rw in &[wl, 0, 4, wl + 1] {
                for &bps in &[8usize, 16, 17, 24, 7] {
                    if !thorough && (bs + wl + rw + bps) % 2 == 1 {
                        continue;
                    }
                    if rw > bs {
                        continue;
                    }
                    let (p, q, r) = mk_residual(&mut rng, 1, bs, rw, 9, 6);
                    let Ok(res) = Residual::new(1, bs, rw, &p, &q, &r) else { continue };
                    let hi = if (1..=31).contains(&bps) { (1i64 << (bps - 1)) - 1 } else { 100 };
                    let warm: Vec<i32> = (0..wl).map(|i| ((i as i64 * 31337) % (2 * hi + 1) - hi) as i32).collect();
                    o.classes.insert(format!("fixed/{bs}/{wl}/{rw}/{bps}"));
                    let desc = format!("FixedLpc::new({wl} warm-up samples, residual(block={bs}, warmup={rw}), bps={bps})");
                    o.observe("fixed", desc, bs, bps, wl, json!({"res_warm": rw, "warm": warm}), || FixedLpc::new(&warm, res, bps), parse_sub(bs, bps));
                }
            }
        }
    }
    for q in &qlps {
        for &bs in &[32usize, 64] {
            for &wl in &[q.order(), 0, q.order() + 1, q.order().saturating_sub(1)] {
                for &rw in &[q.order(), wl] {
                    if wl > 40 || rw > bs {
                        continue;
                    }
                    let (p, qq, r) = mk_residual(&mut rng, 0, bs, rw, 9, 6);
                    let Ok(res) = Residual::new(0, bs, rw, &p, &qq, &r) else { continue };
                    let bps = [16usize, 24, 12][(wl + rw) % 3];
                    let warm: Vec<i32> = (0..wl).map(|i| (i as i32 * 97) % 120 - 60).collect();
                    o.classes.insert(format!("lpc/{}/{}/{wl}/{rw}", q.order(), q.precision()));
                    let desc = format!("Lpc::new({wl} warm-up samples, parameters(order={}, shift={}, precision={}), residual(block={bs}, warmup={rw}), bps={bps})", q.order(), q.shift(), q.precision());
                    let qc = q.clone();
                    let coefs: Vec<i16> = (0..q.order()).map(|i| q.coefficient(i).unwrap_or(0)).collect();
                    o.observe("lpc", desc, bs, bps, wl, json!({"res_warm": rw, "qorder": q.order(), "prec": q.precision(), "shift": q.shift(), "coefs": coefs, "warm": warm}), || Lpc::new(&warm, qc, res, bps), parse_sub(bs, bps));
                }
            }
        }
    }

    // ---------------------------------------------------------------- FrameHeader (+ relabelled offsets)
    let offsets: Vec<(FrameOffset, FrameOffset)> = {
        let f = |n: u64| FrameOffset::Frame(n as u32);
        let s = FrameOffset::StartSample;
        let mut v = vec![];
        let nums: Vec<u64> = vec![0, 1, 127, 128, 2047, 2048, 65535, 65536, (1 << 21) - 1, 1 << 21, (1 << 26) - 1, 1 << 26, (1u64 << 31) - 1, 1 << 31, u32::MAX as u64];
        for (i, a) in nums.iter().enumerate() {
            v.push((f(*a), f(*a)));
            v.push((s(*a), s(*a)));
            let b = nums[(i * 7 + 3) % nums.len()];
            v.push((s(b), f(*a))); // first one kind, then re-labelled with the other
            v.push((f(b), s(*a)));
        }
        for a in [(1u64 << 35), (1 << 36) - 1, 1_000_000] {
            v.push((s(a), s(a)));
            v.push((s(a), f(5)));
            v.push((f(5), s(a)));
        }
        // values the header cannot carry: only through the constructor (set_frame_offset cannot fail)
        for a in [1u64 << 36, u64::MAX] {
            v.push((s(a), s(a)));
        }
        v
    };
    let hdr_geoms: Vec<(usize, ChannelAssignment, usize, usize)> = vec![
        (4096, ChannelAssignment::Independent(2), 16, 44100), (192, ChannelAssignment::MidSide, 24, 96000), (33, ChannelAssignment::LeftSide, 8, 12345),
        (256, ChannelAssignment::RightSide, 12, 65540), (65535, ChannelAssignment::Independent(8), 20, 1), (1, ChannelAssignment::Independent(1), 16, 8000),
        (0, ChannelAssignment::Independent(2), 16, 44100), (65536, ChannelAssignment::Independent(2), 16, 44100), (big, ChannelAssignment::Independent(2), 16, 44100),
        (4096, ChannelAssignment::Independent(0), 16, 44100), (4096, ChannelAssignment::Independent(9), 16, 44100), (4096, ChannelAssignment::Independent(255), 16, 44100),
        (4096, ChannelAssignment::Independent(2), 0, 44100), (4096, ChannelAssignment::Independent(2), 17, 44100), (4096, ChannelAssignment::Independent(2), 32, 44100),
        (4096, ChannelAssignment::Independent(2), 256 + 16, 44100), (4096, ChannelAssignment::Independent(2), big, 44100),
        (4096, ChannelAssignment::Independent(2), 16, 0), (4096, ChannelAssignment::Independent(2), 16, 96001), (4096, ChannelAssignment::Independent(2), 16, 655350),
        (4096, ChannelAssignment::Independent(2), 16, 655351), (4096, ChannelAssignment::Independent(2), 16, (1usize << 32) + 44100), (4096, ChannelAssignment::Independent(2), 16, big),
    ];
    for (gi, (bs, ca, bps, rate)) in hdr_geoms.iter().enumerate() {
        for (oi, (first, then)) in offsets.iter().enumerate() {
            if gi >= 6 && oi > 1 {
                continue;
            }
            if !thorough && gi > 0 && gi < 6 && oi % 4 != gi % 4 {
                continue;
            }
            // a value the header cannot carry can only be refused by the constructor
            // (set_frame_offset has no error path), so it is only passed to the constructor
            if matches!(then, FrameOffset::Frame(n) if *n >= 1 << 31) && format!("{first:?}") != format!("{then:?}") {
                continue;
            }
            let (num_hi, num_lo, variable) = match then {
                FrameOffset::Frame(n) => ((*n as u64 >> 24) as i64, (*n & 0xFF_FFFF) as i64, false),
                FrameOffset::StartSample(n) => (((*n >> 24).min(1 << 20)) as i64, (*n & 0xFF_FFFF) as i64, true),
            };
            o.classes.insert(format!("header/{gi}/{}", oi % 8));
            let desc = format!("FrameHeader::new(block={bs}, {ca:?}, bps={bps}, rate={rate}, {first:?}) then set_frame_offset({then:?})");
            let (ca2, f2, t2) = (ca.clone(), first.clone(), then.clone());
            o.observe("header", desc, (*bs).min(70000), (*bps).min(1000), 0,
                json!({"num_hi": num_hi, "num_lo": num_lo, "variable": variable, "relabelled": format!("{first:?}") != format!("{then:?}"),
                       "rate": if *rate <= 655_350 { *rate as i64 } else { -1 }}),
                || FrameHeader::new(*bs, ca2, *bps, *rate, f2).map(|mut h| { h.set_frame_offset(t2); h }),
                |b| parser::frame_header::<nom::error::Error<&[u8]>>(true)(b).ok().map(|(_, h)| dbg_and_bytes(&h)));
        }
    }

    // ---------------------------------------------------------------- FrameHeader: the block-size and sample-rate code spaces
    // quick: every value with arithmetic structure the codes care about (multiples of 192 / 576 / 256, powers of two
    // +-1, everything up to 300, the 8-/16-bit field limits) plus a seeded sample; thorough: EVERY block size 0..=65536
    // and every rate 0..=96000 and every multiple of 10 / 1000 up to 655350
    {
        use rand::Rng;
        let mut rng = crate::gen::rng_for(seed, 5150);
        let mut bss: std::collections::BTreeSet<usize> = std::collections::BTreeSet::new();
        if thorough {
            bss.extend(0..=65536usize);
        } else {
            bss.extend(0..=300usize);
            bss.extend((1..=341usize).map(|k| k * 192));
            bss.extend((1..=113usize).map(|k| k * 576));
            bss.extend((1..=256usize).map(|k| k * 256));
            for e in 0..=16u32 {
                for d in [-1i64, 0, 1] {
                    bss.insert(((1i64 << e) + d).clamp(0, 65536) as usize);
                }
            }
            bss.extend((0..400).map(|_| rng.gen_range(0..=65536usize)));
        }
        for bs in bss {
            o.classes.insert(format!("header-bs/{}", if bs == 0 { 0 } else { 1 + (bs.ilog2() as usize) }));
            let desc = format!("FrameHeader::new(block={bs}, Independent(2), bps=16, rate=44100, Frame(7))");
            o.observe("header", desc, bs.min(70000), 16, 0, json!({"num_hi": 0, "num_lo": 7, "variable": false, "relabelled": false, "rate": 44100}),
                || FrameHeader::new(bs, ChannelAssignment::Independent(2), 16, 44100, FrameOffset::Frame(7)),
                |b| parser::frame_header::<nom::error::Error<&[u8]>>(true)(b).ok().map(|(_, h)| dbg_and_bytes(&h)));
        }
        let mut rates: std::collections::BTreeSet<usize> = std::collections::BTreeSet::new();
        if thorough {
            rates.extend(0..=96000usize);
            rates.extend((0..=65535usize).map(|k| k * 10));
            rates.extend((0..=655usize).map(|k| k * 1000));
        } else {
            rates.extend(0..=300usize);
            rates.extend([8000usize, 16000, 22050, 24000, 32000, 44100, 48000, 88200, 96000, 176400, 192000, 352800, 384000]);
            rates.extend((0..=655usize).map(|k| k * 1000));
            rates.extend((1..=59usize).map(|k| k * 11025));
            rates.extend([65534usize, 65535, 65536, 65537, 65540, 65550, 255000, 255001, 255010, 256000, 655340, 655349, 655350]);
            for e in 0..=19u32 {
                for d in [-1i64, 0, 1] {
                    rates.insert(((1i64 << e) + d).max(0) as usize);
                }
            }
            rates.extend((0..300).map(|_| rng.gen_range(0..=655350usize)));
            rates.extend((0..100).map(|_| rng.gen_range(0..=65535usize) * 10));
        }
        for rate in rates {
            o.classes.insert(format!("header-rate/{}", if rate == 0 { 0 } else { 1 + (rate.ilog2() as usize) }));
            let desc = format!("FrameHeader::new(block=4096, Independent(2), bps=16, rate={rate}, Frame(7))");
            o.observe("header", desc, 4096, 16, 0, json!({"num_hi": 0, "num_lo": 7, "variable": false, "relabelled": false, "rate": rate}),
                || FrameHeader::new(4096, ChannelAssignment::Independent(2), 16, rate, FrameOffset::Frame(7)),
                |b| parser::frame_header::<nom::error::Error<&[u8]>>(true)(b).ok().map(|(_, h)| dbg_and_bytes(&h)));
        }
    }

    // ---------------------------------------------------------------- Frame::new
    for (fi, (bs, nsub, sub_bs, hdr_ch, bps, sub_bps)) in [
        (64usize, 2usize, 64usize, 2u8, 16usize, 16usize), (64, 1, 64, 2, 16, 16), (64, 3, 64, 2, 16, 16), (64, 0, 64, 1, 16, 16),
        (64, 2, 32, 2, 16, 16), (64, 2, 64, 2, 16, 24), (192, 8, 192, 8, 24, 24), (16, 1, 16, 1, 8, 8), (64, 2, 65, 2, 16, 16),
    ].iter().enumerate() {
        for relabel in [false, true] {
            let subs: Vec<SubFrame> = (0..*nsub).map(|c| {
                let hi = (1i64 << (sub_bps - 1)) - 1;
                let s: Vec<i32> = (0..*sub_bs).map(|i| (((i + c) as i64 * 7919) % (2 * hi + 1) - hi) as i32).collect();
                if c % 2 == 0 { Verbatim::new(&s, *sub_bps).unwrap().into() } else { Constant::new(*sub_bs, s[0], *sub_bps).unwrap().into() }
            }).collect();
            let first = if relabel { FrameOffset::StartSample(1_000_000) } else { FrameOffset::Frame(7) };
            o.classes.insert(format!("frame/{fi}/{relabel}"));
            let desc = format!("Frame::new(header(block={bs}, Independent({hdr_ch}), bps={bps}, {first:?} then Frame(7)), {nsub} subframes of {sub_bs} samples at {sub_bps} bits)");
            let stream_info = StreamInfo::new(44100, (*hdr_ch as usize).max(1), *bps).ok();
            o.observe("frame", desc, *bs, *bps, 0, json!({"ch": hdr_ch, "nsub": nsub, "sub_bs": sub_bs, "sub_bps": sub_bps}), || {
                let mut h = FrameHeader::new(*bs, ChannelAssignment::Independent(*hdr_ch), *bps, 44100, first)?;
                h.set_frame_offset(FrameOffset::Frame(7));
                Frame::new(h, subs.into_iter())
            }, |b| stream_info.as_ref().and_then(|si| parser::frame::<nom::error::Error<&[u8]>>(si, true)(b).ok().map(|(_, f)| dbg_and_bytes(&f))));
        }
    }

    // ---------------------------------------------------------------- encoder-made frames after a failed write
    // (the reported size must equal the bits written whatever happened before on this thread)
    for (si, (what, stream)) in crate::sink::component_streams(seed, if thorough { 12 } else { 4 }).iter().enumerate() {
        let bps = stream.stream_info().bits_per_sample();
        for k in 0..stream.frame_count().min(2) {
            let f = stream.frame(k).unwrap();
            for fail_at in [0usize, 3, 40, 100_000] {
                let mut u = crate::sink::UserSink::new(Some(fail_at), false);
                let failed = f.write(&mut u).is_err();
                let indep = matches!(f.header().channel_assignment(), ChannelAssignment::Independent(_));
                if !indep {
                    continue; // (side channels have bps + 1; the TLC side of this event assumes one width)
                }
                o.classes.insert(format!("frame-after-failed-write/{si}/{k}/{fail_at}"));
                let desc = format!("frame {k} of {what} written again after a write into a sink failing at operation {fail_at} (failed: {failed})");
                let fc = f.clone();
                let si_info = stream.stream_info().clone();
                o.observe("frame", desc, f.block_size(), bps, 0, json!({"ch": f.subframe_count(), "nsub": f.subframe_count(), "sub_bs": f.block_size(), "sub_bps": bps}),
                    || Ok(fc), |b| parser::frame::<nom::error::Error<&[u8]>>(&si_info, true)(b).ok().map(|(_, g)| dbg_and_bytes(&g)));
            }
        }
    }

    // ---------------------------------------------------------------- StreamInfo / unknown metadata
    for &rate in &[0usize, 1, 44100, 96000, 96001, 655350, 1 << 20, (1 << 32) + 44100, big] {
        for &ch in &[0usize, 1, 2, 8, 9, 256 + 2, big] {
            for &bps in &[0usize, 4, 8, 9, 16, 24, 25, 32, 33, 256 + 16, big] {
                if !thorough && (rate % 11 + ch % 5 + bps % 3) % 2 == 1 && !(rate == 44100 && ch == 2) {
                    continue;
                }
                o.classes.insert(format!("streaminfo/{}/{}/{}", rate.min(1 << 21), ch.min(300), bps.min(300)));
                let desc = format!("StreamInfo::new(rate={rate}, channels={ch}, bps={bps})");
                o.observe("streaminfo", desc, 0, bps.min(1000), 0, json!({"rate_hi": (rate >> 24).min(1 << 20), "rate_lo": rate & 0xFF_FFFF, "ch": ch.min(100000), "rate_ok": rate <= 96000, "ch_ok": (1..=8).contains(&ch)}),
                    || StreamInfo::new(rate, ch, bps).and_then(|mut si| {
                        // a fresh StreamInfo has no block/frame sizes yet; state them as an encoder does
                        si.set_block_sizes(4096, 4096)?;
                        si.set_frame_sizes(14, 9000)?;
                        si.set_total_samples(123_456);
                        Ok(si)
                    }),
                    |b| parser::stream_info::<nom::error::Error<&[u8]>>(b).ok().map(|(_, s)| dbg_and_bytes(&s)));
            }
        }
    }
    for &tag in &[0u8, 1, 4, 126, 127, 128, 255] {
        for &len in &[0usize, 1, 100, (1 << 24) - 1, 1 << 24] {
            if len >= (1 << 24) - 1 && tag != 1 && tag != 127 {
                continue;
            }
            let data = vec![0x5Au8; len];
            o.classes.insert(format!("unknown/{tag}/{len}"));
            let desc = format!("MetadataBlockData::new_unknown(tag={tag}, {len} bytes)");
            o.observe("unknown", desc, 0, 0, 0, json!({"tag": tag, "len_hi": len >> 24, "len_lo": len & 0xFF_FFFF}), || MetadataBlockData::new_unknown(tag, &data), |_| None);
        }
    }

    let mut sh = Shards::new(&out, "comp");
    let n = o.lines.len();
    for l in o.lines {
        let cost = l["bytes"].as_array().map_or(1, |b| b.len() as u64 / 16 + 1);
        sh.push(cost, vec![l]);
    }
    let files = sh.write(shards);
    println!(
        "{}",
        json!({"events": n, "classes": o.classes.len(), "outcomes": o.outcomes,
               "files": files.iter().map(|p| p.to_string_lossy().to_string()).collect::<Vec<_>>()})
    );
}
