//! Subcommands around the multi-thread encoder: replay of TLC-generated schedules,
//! random / PCT schedules recorded for TracePar.tla, free-running fault matrix.

use crate::par::{self, ParCase};
use crate::sched::{Event, Policy};
use crate::Args;
use serde_json::{json, Value};
use std::collections::{BTreeMap, BTreeSet};
use std::io::Write;
use std::time::Duration;

fn role_of(label: &str) -> String {
    match label {
        "Main" => "m".into(),
        "Hasher" => "h".into(),
        l if l.starts_with("Worker(") => {
            let k: usize = l[7..l.len() - 1].parse().unwrap();
            format!("w{}", k - 1)
        }
        other => other.to_string(),
    }
}

fn model_site(ev_site: &str, a: i64) -> String {
    if ev_site == "m.spawn" && a == -1 {
        "m.hspawn".into()
    } else {
        ev_site.to_string()
    }
}

fn case_from_args(a: &Args, id: &str) -> ParCase {
    let n = a.num("n", 2) as usize;
    let bs = a.num("bs", 32) as usize;
    let bad: Vec<usize> = a
        .get("bad", "")
        .split(',')
        .filter(|s| !s.is_empty())
        .map(|s| s.parse().unwrap())
        .collect();
    let fail = a.get("fail", "none");
    ParCase {
        id: id.to_string(),
        ch: a.num("ch", 2) as usize,
        bps: a.num("bps", 16) as usize,
        bs,
        nblocks: n,
        last_len: a.num("last", bs as u64) as usize,
        workers: a.num("w", 2) as usize,
        fail_at: if fail == "none" { None } else { Some(fail.parse().unwrap()) },
        bad,
        fill_at_eof: a.get("eoffill", "true") == "true",
        bytes_delivery: a.flag("bytes"),
        hint: !a.flag("nohint"),
        seed: a.num("seed", 1),
    }
}

/// Compares what the call returned with the single-thread reference (C05 bytes, C06 kind).
pub fn judge_against_reference(
    run: &par::Judged,
    reference: &par::Judged,
    problems: &mut Vec<String>,
) {
    if run.outcome != reference.outcome {
        problems.push(format!(
            "C06: multi-thread result {:?} ({}) but single-thread result {:?}",
            run.outcome, run.detail, reference.outcome
        ));
    } else if run.outcome == "ok" && run.bytes != reference.bytes {
        problems.push("C05: multi-thread bytes differ from single-thread bytes".into());
        // the MD5 field of STREAMINFO is bytes 26..42 of the stream
        let md5 = |b: &Option<Vec<u8>>| b.as_ref().and_then(|v| v.get(26..42).map(<[u8]>::to_vec));
        if md5(&run.bytes) != md5(&reference.bytes) {
            problems.push("C03: the MD5 in STREAMINFO of the multi-thread run differs from the single-thread run of the same input".into());
        }
    }
}

pub fn structural_problems(rep: &crate::sched::RunReport, problems: &mut Vec<String>) {
    if let Some(h) = &rep.hang {
        problems.push(format!("C06: no progress: {h}"));
    }
    if rep.deadlock {
        problems.push(format!("C06: deadlock before the call returned; blocked threads: {:?}", rep.blocked_at_end));
    }
    if !rep.panicked.is_empty() {
        problems.push(format!("C06: thread(s) panicked: {:?}", rep.panicked));
    }
    if rep.returned && !rep.alive_at_return.is_empty() {
        problems.push(format!("C06: threads still running when the call returned: {:?}", rep.alive_at_return));
    }
}

/// fv sched-replay --paths <json> --w W --n N [--fail k] [--bad a,b] [--eoffill true|false]
pub fn cmd_sched_replay(a: &Args) {
    let doc: Value = serde_json::from_reader(std::fs::File::open(a.get("paths", "")).expect("paths file")).unwrap();
    let states = doc["states"].as_array().unwrap();
    let paths = doc["paths"].as_array().unwrap();
    let max = a.num("max", paths.len() as u64) as usize;
    let stride = a.num("stride", 1).max(1) as usize;
    let case = case_from_args(a, "replay");
    let reference = par::reference(&case);
    let mut replayed = 0usize;
    let mut steps = 0usize;
    let mut divergences: Vec<Value> = vec![];
    let mut violations: Vec<Value> = vec![];
    let mut sample: Option<Value> = None;
    let mut ndiv = 0usize;
    for (pi, path) in paths.iter().enumerate().step_by(stride).take(max) {
        let path = path.as_array().unwrap();
        let labels: Vec<String> = path
            .iter()
            .filter_map(|s| s[1].as_str().map(role_of))
            .collect();
        let run = par::run_scheduled(&case, Policy::Follow(labels.clone()));
        replayed += 1;
        steps += run.report.events.len();
        let mut div: Vec<String> = vec![];
        let mut prob: Vec<String> = vec![];
        if let Some(d) = &run.report.divergence {
            div.push(d.clone());
        }
        // state-by-state conformance
        for (i, ev) in run.report.events.iter().enumerate() {
            if i >= path.len() {
                div.push(format!("step {i}: the implementation takes a step after the model's terminal state: {ev:?}"));
                break;
            }
            let st = &states[path[i][0].as_u64().unwrap() as usize];
            if let Some(d) = conformance(i, ev, st) {
                div.push(d);
                break;
            }
        }
        if div.is_empty() && run.report.events.len() + 1 != path.len() {
            div.push(format!(
                "the implementation stopped after {} steps, the model behaviour has {}",
                run.report.events.len(),
                path.len() - 1
            ));
        }
        if div.is_empty() {
            let last = &states[path[path.len() - 1][0].as_u64().unwrap() as usize];
            let want = last["result"].as_str().unwrap_or("");
            if want != run.result.outcome {
                div.push(format!("terminal state of the model says result {want:?}, the call returned {:?}", run.result.outcome));
            }
        }
        if div.is_empty() {
            structural_problems(&run.report, &mut prob);
            judge_against_reference(&run.result, &reference, &mut prob);
        } else {
            // The implementation left the model: that run was cut short and says nothing about the
            // property.  Judge a seeded random schedule of the same scenario by the oracles instead
            // (deadlock / leak / panic detection, result kind, bytes).
            let alt = par::run_scheduled(&case, Policy::random(0x5eed ^ pi as u64));
            steps += alt.report.events.len();
            structural_problems(&alt.report, &mut prob);
            judge_against_reference(&alt.result, &reference, &mut prob);
        }
        if sample.is_none() {
            sample = Some(json!({"path": pi, "schedule": labels, "result": run.result.outcome}));
        }
        if !div.is_empty() && divergences.len() < 20 {
            divergences.push(json!({"path": pi, "schedule": labels, "what": div}));
        }
        if !div.is_empty() {
            ndiv += 1;
        }
        if !prob.is_empty() {
            violations.push(json!({"path": pi, "schedule": labels, "what": prob, "case": case}));
        }
        if violations.len() > 20 {
            break;
        }
    }
    println!(
        "{}",
        json!({"replayed": replayed, "steps": steps, "ndiv": ndiv, "divergences": divergences, "violations": violations,
               "reference": reference.outcome, "sample": sample, "case": case})
    );
}

fn conformance(i: usize, ev: &Event, st: &Value) -> Option<String> {
    let wpc: Vec<&str> = st["wpc"].as_array().unwrap().iter().map(|x| x.as_str().unwrap()).collect();
    let pc_of = |role: &str| -> String {
        if role == "m" {
            st["mpc"].as_str().unwrap().to_string()
        } else if role == "h" {
            st["hpc"].as_str().unwrap().to_string()
        } else {
            let k: usize = role[1..].parse().unwrap();
            wpc.get(k).map(|s| s.to_string()).unwrap_or_else(|| "none".into())
        }
    };
    // where every live thread is parked
    let mut live_real: BTreeMap<String, String> = BTreeMap::new();
    for (r, s) in &ev.at {
        let a = if *r == ev.t { ev.a } else if s == "m.spawn" { i64::MIN } else { 0 };
        let site = if s == "m.spawn" && a == i64::MIN {
            // the argument is only known for the scheduled thread; accept both spellings
            let m = pc_of(r);
            if m == "m.hspawn" { "m.hspawn".to_string() } else { "m.spawn".to_string() }
        } else {
            model_site(s, a)
        };
        live_real.insert(r.clone(), site);
    }
    let mut live_model: BTreeMap<String, String> = BTreeMap::new();
    let mut roles = vec!["m".to_string(), "h".to_string()];
    for k in 0..wpc.len() {
        roles.push(format!("w{k}"));
    }
    for r in roles {
        let pc = pc_of(&r);
        if !["none", "done", "dead"].contains(&pc.as_str()) {
            live_model.insert(r, pc);
        }
    }
    if live_real != live_model {
        return Some(format!("step {i}: threads are parked at {live_real:?}, the model has them at {live_model:?}"));
    }
    let en_model: BTreeSet<String> = st["en"].as_array().unwrap().iter().map(|l| role_of(l.as_str().unwrap())).collect();
    let en_real: BTreeSet<String> = ev.en.iter().cloned().collect();
    if en_model != en_real {
        return Some(format!(
            "step {i}: runnable threads are {en_real:?}, the model enables {en_model:?} (parked: {live_real:?})"
        ));
    }
    // (queue lengths reported at a point are sampled when the thread parks and may be stale
    //  when it is scheduled; emptiness / fullness is what the runnable-set comparison checks)
    None
}

/// fv sched-random: seeded random / PCT schedules of random fault scenarios; writes the event
/// traces as NDJSON for TracePar.tla and judges outcome, leaks, panics, deadlocks structurally.
pub fn cmd_sched_random(a: &Args) {
    use rand::Rng;
    let runs = a.num("runs", 100) as usize;
    let seed = a.num("seed", 1);
    let maxw = a.num("maxw", 3) as usize;
    let maxn = a.num("maxn", 5) as usize;
    let faults = !a.flag("nofaults");
    let starve_every = a.num("starve-every", 0) as usize;
    let out = a.get("out", "/verif/.work/par/random.ndjson");
    if let Some(d) = std::path::Path::new(&out).parent() {
        std::fs::create_dir_all(d).unwrap();
    }
    let mut w = std::io::BufWriter::new(std::fs::File::create(&out).unwrap());
    let mut violations: Vec<Value> = vec![];
    let mut classes = BTreeSet::new();
    let mut steps = 0usize;
    let mut samples = vec![];
    for r in 0..runs {
        let mut rng = crate::gen::rng_for(seed, 1000 + r as u64);
        let workers = rng.gen_range(1..=maxw);
        let nblocks = rng.gen_range(0..=maxn);
        let bs = 32usize;
        let fail_at = if faults && rng.gen_bool(0.4) { Some(rng.gen_range(0..=nblocks)) } else { None };
        let mut bad = vec![];
        if faults && nblocks > 0 {
            for k in 0..nblocks {
                if rng.gen_bool(0.2) {
                    bad.push(k);
                }
            }
        }
        // hasher-starving runs: more blocks than the process queue has slots, no faults
        let starve = starve_every > 0 && r % starve_every == starve_every - 1;
        let (workers, nblocks, fail_at, bad) = if starve {
            (rng.gen_range(1..=2usize), rng.gen_range(17..=21usize), None, vec![])
        } else {
            (workers, nblocks, fail_at, bad)
        };
        let case = ParCase {
            id: format!("rnd-{seed}-{r}"),
            ch: rng.gen_range(1..=2),
            bps: [8, 16, 24][rng.gen_range(0..3)],
            bs,
            nblocks,
            last_len: rng.gen_range(1..=bs),
            workers,
            fail_at,
            bad,
            fill_at_eof: rng.gen_bool(0.5),
            bytes_delivery: rng.gen_bool(0.3),
            hint: rng.gen_bool(0.5),
            seed: seed * 7919 + r as u64,
        };
        let policy = if starve {
            Policy::starve("h", seed * 31 + r as u64)
        } else if r % 2 == 0 {
            Policy::random(seed * 31 + r as u64)
        } else {
            Policy::pct(seed * 31 + r as u64, 3, 40 + 25 * nblocks)
        };
        let reference = par::reference(&case);
        let run = par::run_scheduled(&case, policy);
        steps += run.report.events.len();
        let mut prob = vec![];
        structural_problems(&run.report, &mut prob);
        judge_against_reference(&run.result, &reference, &mut prob);
        classes.insert(format!(
            "w{}n{}f{}b{}e{}",
            case.workers,
            case.nblocks,
            case.fail_at.map_or("-".into(), |k| k.to_string()),
            case.bad.len(),
            case.fill_at_eof
        ));
        let schedule: Vec<String> = run.report.events.iter().map(|e| e.t.clone()).collect();
        if !prob.is_empty() {
            violations.push(json!({"case": case, "what": prob, "schedule": schedule}));
        }
        if samples.len() < 2 {
            samples.push(json!({"case": case, "result": run.result.outcome, "steps": schedule.len()}));
        }
        // trace for TracePar.tla
        let badset: Vec<usize> = case.bad.clone();
        serde_json::to_writer(
            &mut w,
            &json!({"ev": "case", "id": case.id, "W": case.workers, "N": case.nblocks,
                    "fail": case.fail_at.map_or(99, |k| k as i64), "bad": badset, "fill": case.fill_at_eof,
                    "reference": reference.outcome}),
        )
        .unwrap();
        w.write_all(b"\n").unwrap();
        for e in &run.report.events {
            let mut en = e.en.clone();
            en.sort();
            serde_json::to_writer(
                &mut w,
                &json!({"ev": "step", "t": e.t, "site": model_site(&e.site, e.a), "a": e.a, "b": e.b, "en": en}),
            )
            .unwrap();
            w.write_all(b"\n").unwrap();
        }
        serde_json::to_writer(
            &mut w,
            &json!({"ev": "end", "id": case.id, "result": run.result.outcome,
                    "blocked": run.report.blocked_at_end.len(), "returned": run.report.returned}),
        )
        .unwrap();
        w.write_all(b"\n").unwrap();
    }
    w.flush().unwrap();
    println!(
        "{}",
        json!({"runs": runs, "steps": steps, "classes": classes.len(), "violations": violations, "samples": samples, "files": [out]})
    );
}

/// fv par-free: free-running fault matrix with a watchdog (C05 environment override, C06 faults).
pub fn cmd_par_free(a: &Args) {
    let seed = a.num("seed", 1);
    let thorough = a.get("tier", "quick") == "thorough";
    let mut violations: Vec<Value> = vec![];
    let mut runs = 0usize;
    let mut classes = BTreeSet::new();
    let mut samples = vec![];
    let watchdog = Duration::from_secs(30);
    let envs: Vec<Option<&str>> = vec![None, Some("0"), Some("1"), Some("3"), Some("abc"), Some(""), Some("18446744073709551616"), Some("-1"), Some("2")];
    let maxn = if thorough { 7 } else { 4 };
    let wset: Vec<usize> = if thorough { vec![1, 2, 3, 4, 8, 16] } else { vec![1, 2, 3, 16] };
    // (a) fault matrix with workers from the configuration
    for &workers in &wset {
        for nblocks in 0..=maxn {
            let mut scen: Vec<(Option<usize>, Vec<usize>)> = vec![(None, vec![])];
            for k in 0..=nblocks {
                scen.push((Some(k), vec![]));
            }
            for b in 0..nblocks {
                scen.push((None, vec![b]));
                for b2 in (b + 1)..nblocks {
                    scen.push((None, vec![b, b2]));
                }
                for k in 0..=nblocks {
                    if thorough || (k + b) % 2 == 0 {
                        scen.push((Some(k), vec![b]));
                    }
                }
            }
            for (si, (fail_at, bad)) in scen.into_iter().enumerate() {
                let case = ParCase {
                    id: format!("free-w{workers}-n{nblocks}-{si}"),
                    ch: 1 + si % 2,
                    bps: 16,
                    bs: 32,
                    nblocks,
                    last_len: 1 + (si * 7) % 32,
                    workers,
                    fail_at,
                    bad,
                    fill_at_eof: si % 2 == 0,
                    bytes_delivery: si % 3 == 0,
                    hint: si % 2 == 1,
                    seed: seed + si as u64,
                };
                let reference = par::reference(&case);
                let run = par::run_free(&case, None, true, watchdog);
                runs += 1;
                classes.insert(format!("w{workers}n{nblocks}f{:?}b{}", case.fail_at, case.bad.len()));
                let mut prob = vec![];
                free_problems(&run, &reference, &mut prob);
                if samples.len() < 2 {
                    samples.push(json!({"case": case, "result": run.result.outcome, "ms": run.wall_ms as u64}));
                }
                if !prob.is_empty() {
                    violations.push(json!({"case": case, "what": prob, "env": Value::Null}));
                    if run.timed_out {
                        // a hung call keeps its threads: stop here, the process is no longer clean
                        println!("{}", json!({"runs": runs, "classes": classes.len(), "violations": violations, "samples": samples, "aborted": "hang"}));
                        std::process::exit(0);
                    }
                }
            }
        }
    }
    // (b) environment override of the worker count (configuration leaves `workers` unset)
    for (ei, env) in envs.iter().enumerate() {
        for nblocks in [0usize, 1, 3, 6] {
            let case = ParCase {
                id: format!("env-{ei}-n{nblocks}"),
                ch: 2,
                bps: 16,
                bs: 32,
                nblocks,
                last_len: 17,
                workers: 0,
                fail_at: None,
                bad: vec![],
                fill_at_eof: true,
                bytes_delivery: false,
                hint: true,
                seed: seed + 99 + ei as u64,
            };
            let reference = par::reference(&case);
            let run = par::run_free(&case, *env, false, watchdog);
            runs += 1;
            classes.insert(format!("env{:?}n{nblocks}", env));
            let mut prob = vec![];
            free_problems(&run, &reference, &mut prob);
            if !prob.is_empty() {
                violations.push(json!({"case": case, "what": prob, "env": env}));
                if run.timed_out {
                    println!("{}", json!({"runs": runs, "classes": classes.len(), "violations": violations, "samples": samples, "aborted": "hang"}));
                    std::process::exit(0);
                }
            }
        }
    }
    println!("{}", json!({"runs": runs, "classes": classes.len(), "violations": violations, "samples": samples}));
}

fn free_problems(run: &par::FreeRun, reference: &par::Judged, prob: &mut Vec<String>) {
    if run.timed_out {
        prob.push("C06: the call did not return within the watchdog time (hang)".into());
        return;
    }
    judge_against_reference(&run.result, reference, prob);
    if run.threads_after > run.threads_before {
        prob.push(format!(
            "C06: {} thread(s) still alive after the call returned",
            run.threads_after - run.threads_before
        ));
    }
    if run.helper_panics > 0 {
        prob.push(format!("C06: {} helper thread panic(s)", run.helper_panics));
    }
}

/// fv sched-one --file <replay.json>: re-runs one recorded schedule (or, for a free-running
/// finding, the free run) of one scenario and judges it.
pub fn cmd_sched_one(a: &Args) {
    let doc: Value = serde_json::from_reader(std::fs::File::open(a.get("file", "")).expect("replay file")).unwrap();
    let c = &doc["case"];
    let case = ParCase {
        id: c["id"].as_str().unwrap_or("replay").to_string(),
        ch: c["ch"].as_u64().unwrap() as usize,
        bps: c["bps"].as_u64().unwrap() as usize,
        bs: c["bs"].as_u64().unwrap() as usize,
        nblocks: c["nblocks"].as_u64().unwrap() as usize,
        last_len: c["last_len"].as_u64().unwrap() as usize,
        workers: c["workers"].as_u64().unwrap() as usize,
        fail_at: c["fail_at"].as_u64().map(|x| x as usize),
        bad: c["bad"].as_array().unwrap().iter().map(|x| x.as_u64().unwrap() as usize).collect(),
        fill_at_eof: c["fill_at_eof"].as_bool().unwrap(),
        bytes_delivery: c["bytes_delivery"].as_bool().unwrap(),
        hint: c["hint"].as_bool().unwrap(),
        seed: c["seed"].as_u64().unwrap(),
    };
    let reference = par::reference(&case);
    let mut prob = vec![];
    if doc["kind"] == "free" {
        let env = doc["env"].as_str();
        let run = par::run_free(&case, env, env.is_none(), Duration::from_secs(30));
        free_problems(&run, &reference, &mut prob);
    } else {
        let schedule: Vec<String> = doc["schedule"].as_array().map_or(vec![], |v| v.iter().map(|x| x.as_str().unwrap().to_string()).collect());
        let run = par::run_scheduled(&case, Policy::Follow(schedule));
        if let Some(d) = &run.report.divergence {
            prob.push(format!("DIVERGENCE: {d}"));
        } else {
            structural_problems(&run.report, &mut prob);
            judge_against_reference(&run.result, &reference, &mut prob);
        }
    }
    println!("{}", json!({"problems": prob, "case": case}));
}

/// fv seqproto: the single-thread entry point driven by sources that record every `read_samples` call;
/// the call sequence and the result are validated against EncoderSeq.tla by TraceSeq.tla.
pub fn cmd_seqproto(a: &Args) {
    let out = a.get("out", "/verif/.work/seq/seq.ndjson");
    if let Some(d) = std::path::Path::new(&out).parent() {
        std::fs::create_dir_all(d).unwrap();
    }
    let thorough = a.get("tier", "quick") == "thorough";
    let mut w = std::io::BufWriter::new(std::fs::File::create(&out).unwrap());
    let mut n = 0usize;
    let mut classes = BTreeSet::new();
    let bs = 32usize;
    let maxn = if thorough { 6 } else { 4 };
    for nblocks in 0..=maxn {
        for last_len in [1usize, 17, bs] {
            if nblocks == 0 && last_len != bs {
                continue;
            }
            let mut fails: Vec<Option<usize>> = vec![None];
            fails.extend((0..=nblocks + 1).map(Some));
            for fail_at in fails {
                let mut bads: Vec<Vec<usize>> = vec![vec![]];
                bads.extend((0..nblocks).map(|b| vec![b]));
                if nblocks >= 3 {
                    bads.push(vec![0, 2]);
                    bads.push(vec![1, nblocks - 1]);
                }
                for bad in bads {
                    for (ch, bps, fill_at_eof) in [(1usize, 16usize, true), (2, 8, false)] {
                        let case = ParCase {
                            id: format!("seq-{n}"),
                            ch, bps, bs, nblocks, last_len, workers: 1, fail_at, bad: bad.clone(), fill_at_eof,
                            bytes_delivery: false, hint: n % 2 == 0, seed: 4242 + n as u64,
                        };
                        let log = std::sync::Arc::new(std::sync::Mutex::new(vec![]));
                        let mut src = case.source();
                        src.log = Some(log.clone());
                        let res = crate::enc::encode(&case.cfg(), src, &crate::enc::Mode::St);
                        let (outcome, info) = match &res {
                            crate::enc::Outcome::Ok(s) => {
                                let si = s.stream_info();
                                ("ok".to_string(), json!({"minbs": si.min_block_size(), "maxbs": si.max_block_size(), "total": si.total_samples(), "nframes": s.frame_count()}))
                            }
                            crate::enc::Outcome::Err(k, _) => (format!("err:{k}"), json!({"minbs": 0, "maxbs": 0, "total": 0, "nframes": 0})),
                            crate::enc::Outcome::Panic(_) => ("panic".to_string(), json!({"minbs": 0, "maxbs": 0, "total": 0, "nframes": 0})),
                        };
                        let len = if nblocks == 0 { 0 } else { (nblocks - 1) * bs + last_len };
                        serde_json::to_writer(&mut w, &json!({"ev": "seq", "id": case.id, "bs": bs, "len": len, "fail": fail_at.map_or(99, |k| k as i64), "bad": bad})).unwrap();
                        w.write_all(b"\n").unwrap();
                        for (k, (arg, ret)) in log.lock().unwrap().iter().enumerate() {
                            serde_json::to_writer(&mut w, &json!({"ev": "read", "k": k, "arg": arg, "ret": ret})).unwrap();
                            w.write_all(b"\n").unwrap();
                        }
                        serde_json::to_writer(&mut w, &json!({"ev": "done", "result": outcome, "info": info})).unwrap();
                        w.write_all(b"\n").unwrap();
                        classes.insert(format!("{nblocks}/{}/{}/{}", last_len == bs, fail_at.is_some(), bad.len()));
                        n += 1;
                    }
                }
            }
        }
    }
    w.flush().unwrap();
    println!("{}", json!({"cases": n, "classes": classes.len(), "files": [out]}));
}
