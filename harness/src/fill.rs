//! C14 driver: the same audio through `fill_interleaved` and `fill_le_bytes`.

use crate::enc::to_le_bytes;
use crate::gen::{self, Cfg};
use crate::trace::Shards;
use crate::Args;
use flacenc::bitsink::ByteSink;
use flacenc::component::{BitRepr, StreamInfo};
use flacenc::error::Verify;
use flacenc::source::{Context, Fill, FrameBuf};
use rand::Rng;
use serde_json::{json, Value};
use std::collections::BTreeSet;
use std::panic::{catch_unwind, AssertUnwindSafe};
use std::path::PathBuf;

fn verbatim_cfg(bs: usize) -> Cfg {
    Cfg {
        block_size: bs,
        use_constant: false,
        use_fixed: false,
        use_lpc: false,
        use_leftside: false,
        use_rightside: false,
        use_midside: false,
        ..Cfg::default()
    }
}

struct Path {
    fb: FrameBuf,
    ctx: Context,
}

fn observe(p: &Path, info: Option<&StreamInfo>, bs: usize, fill: Result<Result<(), String>, ()>) -> Value {
    let (err, panic) = match fill {
        Ok(Ok(())) => (false, false),
        Ok(Err(_)) => (true, false),
        Err(()) => (false, true),
    };
    let mut frame: Vec<u8> = vec![];
    if !panic && !err && p.fb.filled_size() > 0 {
        if let Some(info) = info {
            let cfg = verbatim_cfg(bs).to_encoder().into_verified();
            if let Ok(cfg) = cfg {
                let r = catch_unwind(AssertUnwindSafe(|| {
                    flacenc::encode_fixed_size_frame(&cfg, &p.fb, 0, info).ok().and_then(|f| {
                        let mut s = ByteSink::new();
                        f.write(&mut s).ok().map(|_| s.as_slice().to_vec())
                    })
                }));
                if let Ok(Some(b)) = r {
                    frame = b;
                }
            }
        }
    }
    json!({"err": err, "panic": panic, "filled": p.fb.filled_size(), "total": p.ctx.total_samples(),
           "fnum": p.ctx.current_frame_number().map_or(-1i64, |x| x as i64), "md5": p.ctx.md5_digest().to_vec(),
           "frame": frame})
}

pub fn cmd_fill(a: &Args) {
    let thorough = a.get("tier", "quick") == "thorough";
    let seed = a.num("seed", 1);
    let out = PathBuf::from(a.get("out", "/verif/.work/fill"));
    let shards = a.num("shards", 12) as usize;
    let mut sh = Shards::new(&out, "fill");
    let mut ncases = 0usize;
    let mut nfills = 0usize;
    let mut classes = BTreeSet::new();
    let mut samples = vec![];
    let widths: [(usize, usize); 6] = [(1, 8), (2, 12), (2, 16), (3, 20), (3, 24), (4, 32)];
    let caps = [32usize, 33, 47];
    let mut idx = 0usize;
    for ch in 1..=8usize {
        for &(bb, bps) in &widths {
            // large single fills: internal chunking of the hashing / conversion paths (1 KiB .. 4 KiB
            // buffers hold a non-integral number of 3-byte samples)
            let mut caps: Vec<usize> = caps.to_vec();
            match ch {
                1 => caps.extend(if thorough { vec![1366, 2731, 4097, 5462] } else { vec![1366, 4097] }),
                2 => caps.extend(if thorough { vec![683, 1366, 2731] } else { vec![2731] }),
                3 if thorough => caps.extend([456, 1366]),
                _ => {}
            }
            for &cap in &caps {
                let lens: Vec<usize> = if cap > 100 {
                    vec![cap - 1, cap]
                } else if thorough {
                    (0..=cap).collect()
                } else {
                    let mut v: Vec<usize> = (0..=cap).filter(|l| (l + idx) % 4 == 0).collect();
                    v.extend([0, 1, cap - 1, cap]);
                    v.sort_unstable();
                    v.dedup();
                    v
                };
                for len in lens {
                    idx += 1;
                    let mut rng = gen::rng_for(seed, 31000 + idx as u64);
                    let hi = (1i64 << (bps - 1)) - 1;
                    let lo = -(1i64 << (bps - 1));
                    let mut block = |n: usize, rng: &mut rand::rngs::StdRng| -> Vec<i32> {
                        (0..n * ch)
                            .map(|i| match (i + idx) % 7 {
                                0 => lo as i32,
                                1 => hi as i32,
                                2 => -1,
                                3 => 0,
                                _ => rng.gen_range(lo..=hi) as i32,
                            })
                            .collect()
                    };
                    // full block, then the shorter block, then an empty one, then the shorter again
                    let fills: Vec<Vec<i32>> = vec![block(cap, &mut rng), block(len, &mut rng), vec![], block(len.min(3), &mut rng)];
                    let id = format!("fill-{ch}ch-{bps}b-cap{cap}-len{len}");
                    let mut lines = vec![json!({"ev": "fillcase", "id": id, "ch": ch, "bps": bps, "B": bb, "cap": cap})];
                    let info = if bps <= 24 { StreamInfo::new(44100, ch, bps).ok() } else { None };
                    let mk = || Path { fb: FrameBuf::with_size(ch, cap).unwrap(), ctx: Context::new(bps, ch) };
                    let (mut pi, mut pb) = (mk(), mk());
                    for x in &fills {
                        let bytes = to_le_bytes(x, bb);
                        let ri = catch_unwind(AssertUnwindSafe(|| {
                            let mut pair = (&mut pi.fb, &mut pi.ctx);
                            pair.fill_interleaved(x).map_err(|e| format!("{e}"))
                        }))
                        .map_err(|_| ());
                        let rb = catch_unwind(AssertUnwindSafe(|| {
                            let mut pair = (&mut pb.fb, &mut pb.ctx);
                            pair.fill_le_bytes(&bytes, bb).map_err(|e| format!("{e}"))
                        }))
                        .map_err(|_| ());
                        let oi = observe(&pi, info.as_ref(), cap, ri);
                        let ob = observe(&pb, info.as_ref(), cap, rb);
                        lines.push(json!({"ev": "fill", "x": x, "bytes": bytes, "int": oi, "byte": ob}));
                        nfills += 1;
                    }
                    lines.push(json!({"ev": "fin"}));
                    classes.insert(format!("{ch}/{bb}/{bps}/{cap}/{}", if len == 0 { "0" } else if len == cap { "cap" } else { "mid" }));
                    if samples.len() < 2 {
                        samples.push(json!({"id": id, "fills": fills.iter().map(Vec::len).collect::<Vec<_>>()}));
                    }
                    sh.push((cap + len + 3) as u64 * ch as u64, lines);
                    ncases += 1;
                }
            }
        }
    }
    let files = sh.write(shards);
    println!(
        "{}",
        json!({"cases": ncases, "fills": nfills, "classes": classes.len(), "samples": samples,
               "files": files.iter().map(|p| p.to_string_lossy().to_string()).collect::<Vec<_>>()})
    );
}
