//! fv rice: the partitioned-Rice parameter search of src/rice.rs called directly (hook `verif::rice_find`)
//! on tie-rich residuals; TraceRice.tla predicts partition order, parameters and bits with the search model
//! (RiceSearch.tla's TieRule, evaluated by FlacFormat!RiceChoice with the real constants).

use crate::gen;
use crate::trace::Shards;
use crate::Args;
use rand::Rng;
use serde_json::json;
use std::collections::BTreeSet;
use std::panic::{catch_unwind, AssertUnwindSafe};
use std::path::PathBuf;

pub fn cmd_rice(a: &Args) {
    let thorough = a.get("tier", "quick") == "thorough";
    let seed = a.num("seed", 1);
    let out = PathBuf::from(a.get("out", "/verif/.work/rice"));
    let cases = a.num("cases", if thorough { 6000 } else { 600 }) as usize;
    let mut sh = Shards::new(&out, "rice");
    let mut classes = BTreeSet::new();
    let mut panics = 0usize;
    let sizes = [64usize, 128, 192, 256, 320, 384, 512, 65, 100, 640, 1024, 96];
    let warms = [0usize, 1, 2, 4, 0, 12, 32, 3];
    let maxps = [14usize, 0, 1, 2, 3, 7, 14, 5];
    // all calls on ONE thread, sizes going up and down: the finder's reusable buffers carry history
    for i in 0..cases {
        let mut rng = gen::rng_for(seed, 880_000 + i as u64);
        let n = sizes[i % sizes.len()];
        let warm = warms[(i / 3) % warms.len()];
        let maxp = maxps[(i / 5) % maxps.len()];
        let fam = i % 8;
        // the designed order ties need few stretches (every pair must tie at once)
        let n = if fam >= 6 { [128usize, 256, 128, 192][(i / 8) % 4] } else { n };
        let mut sig = vec![0i32; n];
        // magnitudes per 64-sample stretch from a small alphabet: exact cost ties between partition orders and
        // between adjacent parameters are the rule, not the exception
        let alpha: [i32; 8] = [0, 1, 2, 3, 5, 8, 21, 300];
        let stretch = [64usize, 32, 128, 64, 16, 64, 64, 64][fam];
        let mut level = alpha[rng.gen_range(0..alpha.len())];
        for t in 0..n {
            if t % stretch == 0 {
                level = match fam {
                    0 | 1 => alpha[rng.gen_range(0..alpha.len())],
                    2 => alpha[(t / stretch + i) % 4],
                    3 => if (t / stretch) % 2 == 0 { alpha[i % 8] } else { alpha[(i / 8) % 8] },
                    _ => alpha[rng.gen_range(0..5)],
                };
            }
            sig[t] = match fam {
                0 | 2 | 3 => if t % 2 == 0 { level } else { -level },      // constant folded magnitude (2v / 2v-1)
                1 => level,
                4 => rng.gen_range(-level..=level),
                _ => [0, level, -level][rng.gen_range(0..3)],
            };
        }
        if fam >= 6 {
            // designed ORDER ties: folded value 2 costs 3 bits under parameters 0, 1 and 2 alike; a 64-sample stretch
            // with k zeros prefers parameter 0 (1 bit less per zero than parameter 1), one with j folded fives
            // prefers 1 (2 bits less per five than parameter 0): merging an A and a B stretch costs min(2j, k) - 4
            // more or less than keeping them apart - exactly 0 for (j, k) = (2, 4..), (2.., 4)
            for t in 0..n {
                sig[t] = 1;
            }
            for st in 0..n / 64 {
                let a_type = if fam == 6 { st % 2 == 0 } else { rng.gen_bool(0.5) };
                let cnt = if a_type { [4usize, 4, 5, 3][rng.gen_range(0..4)] } else { [2usize, 2, 3, 1][rng.gen_range(0..4)] };
                let mut placed = 0;
                while placed < cnt {
                    let t = st * 64 + rng.gen_range(0..64);
                    if sig[t] == 1 && t >= warm {
                        sig[t] = if a_type { 0 } else { -3 };
                        placed += 1;
                    }
                }
            }
        }
        for s in sig.iter_mut().take(warm) {
            *s = 0;
        }
        let r = catch_unwind(AssertUnwindSafe(|| flacenc::verif::rice_find(&sig, warm, maxp)));
        let line = match r {
            Ok((order, ps, bits)) => json!({"ev": "rice", "id": format!("r{i}"), "sig": sig, "warm": warm, "maxp": maxp,
                                            "order": order, "ps": ps, "bits": bits, "panic": false}),
            Err(_) => {
                panics += 1;
                json!({"ev": "rice", "id": format!("r{i}"), "sig": sig, "warm": warm, "maxp": maxp, "order": 0, "ps": [], "bits": 0, "panic": true})
            }
        };
        classes.insert(format!("{n}/{warm}/{maxp}/{fam}"));
        sh.push(n as u64, vec![line]);
    }
    let files = sh.write(a.num("shards", 12) as usize);
    println!(
        "{}",
        json!({"cases": cases, "classes": classes.len(), "panics": panics,
               "files": files.iter().map(|p| p.to_string_lossy().to_string()).collect::<Vec<_>>()})
    );
}
