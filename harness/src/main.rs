//! `fv` - conformance harness binding the TLA+ specification in /verif/spec to flacenc-rs.
//! Every subcommand drives the real library (path dependency on /repo) and writes NDJSON
//! traces that the Trace*.tla modules validate, or replays TLC-generated behaviours.

mod api;
mod builder;
mod cfgcmd;
mod choice;
mod comp;
mod enc;
mod fill;
mod gen;
mod headers;
mod history;
mod long;
mod mutate;
mod par;
mod parcmd;
mod ricecmd;
mod sched;
mod sink;
mod stream;
mod trace;

use serde_json::json;
use std::collections::HashMap;
use std::path::PathBuf;

pub struct Args {
    pub cmd: String,
    pub kv: HashMap<String, String>,
}

impl Args {
    fn parse() -> Args {
        let mut it = std::env::args().skip(1);
        let cmd = it.next().unwrap_or_default();
        let mut kv = HashMap::new();
        let rest: Vec<String> = it.collect();
        let mut i = 0;
        while i < rest.len() {
            let k = rest[i].trim_start_matches("--").to_string();
            if i + 1 < rest.len() && !rest[i + 1].starts_with("--") {
                kv.insert(k, rest[i + 1].clone());
                i += 2;
            } else {
                kv.insert(k, "true".into());
                i += 1;
            }
        }
        Args { cmd, kv }
    }
    pub fn get(&self, k: &str, d: &str) -> String {
        self.kv.get(k).cloned().unwrap_or_else(|| d.to_string())
    }
    pub fn num(&self, k: &str, d: u64) -> u64 {
        self.kv.get(k).and_then(|s| s.parse().ok()).unwrap_or(d)
    }
    pub fn flag(&self, k: &str) -> bool {
        self.kv.contains_key(k)
    }
}

fn cmd_stream(a: &Args) {
    let profile = a.get("profile", "c01");
    let props_s = a.get("props", "C01");
    let props: Vec<&str> = props_s.split(',').collect();
    let thorough = a.get("tier", "quick") == "thorough";
    let seed = a.num("seed", 1);
    let out = PathBuf::from(a.get("out", "/verif/.work/stream"));
    let shards = a.num("shards", 12) as usize;
    let budget = stream::Budget {
        cases: a.num("cases", if thorough { 2400 } else { 260 }) as usize,
        small: !a.flag("big"),
        max_frames: a.num("frames", 3) as usize,
        max_cost: a.num("cost", if thorough { 4_000_000 } else { 260_000 }),
        bigshare: a.num("bigshare", 0) as usize,
    };
    let mut cases = stream::gen_cases(&profile, seed, &budget);
    if a.flag("sweep") {
        cases.extend(stream::gen_length_sweep(seed, thorough));
    }
    if let Some(only) = a.kv.get("only") {
        cases.retain(|c| &c.id == only);
    }
    let s = stream::drive(&cases, &props, a.flag("counts"), &out, &profile, shards);
    println!(
        "{}",
        json!({"cases": s.cases, "classes": s.classes.len(), "kinds": s.kinds, "outcomes": s.outcomes,
               "samples": s.samples, "files": s.files})
    );
}

fn main() {
    // panics of the code under test are data: keep the default hook quiet unless asked
    par::install_panic_hook();
    let a = Args::parse();
    match a.cmd.as_str() {
        "stream" => cmd_stream(&a),
        "sched-replay" => parcmd::cmd_sched_replay(&a),
        "sched-random" => parcmd::cmd_sched_random(&a),
        "par-free" => parcmd::cmd_par_free(&a),
        "sched-one" => parcmd::cmd_sched_one(&a),
        "seqproto" => parcmd::cmd_seqproto(&a),
        "sink" => sink::cmd_sink(&a),
        "faulty" => sink::cmd_faulty(&a),
        "rice" => ricecmd::cmd_rice(&a),
        "fill" => fill::cmd_fill(&a),
        "cfg07" => cfgcmd::cmd_cfg07(&a),
        "comp" => comp::cmd_comp(&a),
        "choice" => choice::cmd_choice(&a),
        "long" => long::cmd_long(&a),
        "builder" => builder::cmd_builder(&a),
        "api" => api::cmd_api(&a),
        "headers" => headers::cmd_headers(&a),
        "mutate" => mutate::cmd_mutate(&a),
        "wgen" => mutate::cmd_wgen(&a),
        "history" => history::cmd_history(&a),
        "histexp" => history::cmd_histexp(&a),
        "cfg19" => cfgcmd::cmd_cfg19(&a),
        other => {
            eprintln!("unknown subcommand {other:?}");
            std::process::exit(2);
        }
    }
}
