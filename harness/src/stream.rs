//! Stream-level driver: encodes generated cases with the real library and records
//! `case` / `blk` / `end` events for TraceStream.tla (properties C01-C04, C08, C09, C13, C15).

use crate::enc::{self, Delivery, Mode, Outcome, VecSource};
use crate::gen::{self, Cfg, Geometry};
use crate::trace::Shards;
use flacenc::bitsink::ByteSink;
use flacenc::component::parser;
use flacenc::component::{BitRepr, ChannelAssignment, Decode, Frame, Residual, Stream, SubFrame};
use flacenc::error::Verify;
use std::panic::{catch_unwind, AssertUnwindSafe};
use rand::rngs::StdRng;
use rand::Rng;
use serde_json::{json, Value};
use std::collections::BTreeSet;
use std::path::Path;

#[derive(Clone, Debug)]
pub struct Case {
    pub id: String,
    pub g: Geometry,
    pub family: String,
    pub relation: String,
    pub cfg: Cfg,
    pub mode: Mode,
    pub delivery: Delivery,
    pub hint: bool,
    /// the length hint is off by this many samples (cross-path equality checks only: a lying hint decides
    /// nothing about the total the stream should state)
    pub hint_delta: i64,
    pub fill_at_eof: bool,
    pub chans: Vec<Vec<i32>>,
}

impl Case {
    pub fn source(&self) -> VecSource {
        let mut s = VecSource::new(&self.g, gen::interleave(&self.chans));
        s.delivery = self.delivery.clone();
        s.hint = self.hint || self.hint_delta != 0;
        s.hint_delta = self.hint_delta;
        s.fill_at_eof = self.fill_at_eof;
        s
    }
    pub fn cost(&self) -> u64 {
        let lpcw = if self.cfg.use_lpc { 1 + self.cfg.lpc_order as u64 / 4 } else { 1 };
        (self.g.n * self.g.ch) as u64 * lpcw
    }
    /// class signature used for `distinct_nontrivial`
    pub fn class(&self) -> String {
        format!(
            "{}ch/{}b/{}/{}/{}/bs{}/len{}",
            self.g.ch,
            self.g.bps,
            self.family,
            self.mode.name(),
            if self.cfg == (Cfg { block_size: self.cfg.block_size, ..Cfg::default() }) { "dflt" } else { "cfg" },
            match self.g.bs { 0..=63 => "<64", 64..=255 => "<256", 256..=1023 => "<1k", 1024..=4095 => "<4k", _ => "big" },
            if self.g.n == 0 { "0" } else if self.g.n < self.g.bs { "short" } else if self.g.n % self.g.bs == 0 { "mult" } else if self.g.n % self.g.bs < 16 { "tail<16" } else { "tail" }
        )
    }
}

fn subframe_kind(s: &SubFrame) -> &'static str {
    match s {
        SubFrame::Constant(_) => "constant",
        SubFrame::Verbatim(_) => "verbatim",
        SubFrame::FixedLpc(_) => "fixed",
        SubFrame::Lpc(_) => "lpc",
    }
}

/// Bit counts the library reports for a frame and its parts (C08).
fn reported_counts(stream: &Stream, k: usize) -> Value {
    let f = stream.frame(k).unwrap();
    let mut subs = vec![];
    let mut res = vec![];
    for c in 0..f.subframe_count() {
        let s = f.subframe(c).unwrap();
        subs.push(s.count_bits());
        res.push(match s {
            SubFrame::FixedLpc(x) => x.residual().count_bits() as i64,
            SubFrame::Lpc(x) => x.residual().count_bits() as i64,
            _ => -1,
        });
    }
    json!({"frame": f.count_bits(), "hdr": f.header().count_bits(), "subs": subs, "res": res})
}

fn detail_len(n: &usize) -> usize {
    *n
}

fn residual_projection(r: &Residual, n: usize, ord: usize) -> Value {
    let np = 1usize << r.partition_order();
    json!({"porder": r.partition_order(), "params": (0..np).map(|p| r.rice_parameter(p)).collect::<Vec<_>>(),
           "res": (ord..n).map(|t| r.residual(t)).collect::<Vec<_>>()})
}

/// What the library's parser reports for one frame, projected through the public accessors (C15).
fn frame_projection(f: &Frame) -> Value {
    let n = f.block_size();
    let chcode = match f.header().channel_assignment() {
        ChannelAssignment::Independent(c) => *c as i64 - 1,
        ChannelAssignment::LeftSide => 8,
        ChannelAssignment::RightSide => 9,
        ChannelAssignment::MidSide => 10,
    };
    let none = json!({"porder": -1, "params": [], "res": []});
    let subs: Vec<Value> = (0..f.subframe_count())
        .map(|c| match f.subframe(c).unwrap() {
            SubFrame::Constant(x) => json!({"kind": "constant", "order": 0, "dc": x.dc_offset(), "warm": [], "coefs": [], "shift": 0, "prec": 0, "r": none}),
            SubFrame::Verbatim(_) => json!({"kind": "verbatim", "order": 0, "dc": 0, "warm": [], "coefs": [], "shift": 0, "prec": 0, "r": none}),
            SubFrame::FixedLpc(x) => json!({"kind": "fixed", "order": x.order(), "dc": 0, "warm": x.warm_up(), "coefs": [], "shift": 0, "prec": 0,
                                            "r": residual_projection(x.residual(), n, x.order())}),
            SubFrame::Lpc(x) => json!({"kind": "lpc", "order": x.order(), "dc": 0, "warm": x.warm_up(),
                                       "coefs": (0..x.order()).map(|i| x.parameters().coefficient(i).unwrap_or(0)).collect::<Vec<_>>(),
                                       "shift": x.parameters().shift(), "prec": x.parameters().precision(),
                                       "r": residual_projection(x.residual(), n, x.order())}),
        })
        .collect();
    let dec = f.decode();
    let ch = f.subframe_count().max(1);
    let chans: Vec<Vec<i32>> = (0..ch).map(|c| (0..n).map(|t| dec[t * ch + c]).collect()).collect();
    json!({"n": n, "chcode": chcode, "subs": subs, "dec": chans})
}

/// C15: parse the emitted bytes with the library's own parser.
fn parse_back(bytes: &[u8]) -> (Value, Option<Stream>) {
    let r = catch_unwind(AssertUnwindSafe(|| parser::stream::<nom::error::Error<&[u8]>>(bytes).map(|(rest, s)| (rest.len(), s)).map_err(|e| format!("{e:?}"))));
    match r {
        Err(_) => (json!({"parse": "panic", "remaining": -1, "verify": "na", "reser": false, "nframes": -1, "frames_ok": false}), None),
        Ok(Err(e)) => (json!({"parse": "err", "detail": e.chars().take(100).collect::<String>(), "remaining": -1, "verify": "na", "reser": false, "nframes": -1, "frames_ok": false}), None),
        Ok(Ok((rest, s))) => {
            let verify = match catch_unwind(AssertUnwindSafe(|| s.verify())) {
                Ok(Ok(())) => "ok",
                Ok(Err(_)) => "err",
                Err(_) => "panic",
            };
            let reser = catch_unwind(AssertUnwindSafe(|| {
                let mut sink = ByteSink::new();
                s.write(&mut sink).is_ok() && sink.as_slice() == bytes
            }))
            .unwrap_or(false);
            // every frame on its own: serialise, parse with parser::frame, serialise again
            let frames_ok = catch_unwind(AssertUnwindSafe(|| {
                (0..s.frame_count()).all(|k| {
                    let f = s.frame(k).unwrap();
                    let mut a = ByteSink::new();
                    if f.write(&mut a).is_err() {
                        return false;
                    }
                    let abytes = a.as_slice().to_vec();
                    let parsed = parser::frame::<nom::error::Error<&[u8]>>(s.stream_info(), true)(&abytes).map(|(rest, g)| (rest.len(), g));
                    let ok = match parsed {
                        Ok((rest, g)) => {
                            let mut b = ByteSink::new();
                            rest == 0 && g.write(&mut b).is_ok() && abytes == b.as_slice() && g.verify().is_ok()
                        }
                        Err(_) => false,
                    };
                    ok
                })
            }))
            .unwrap_or(false);
            (json!({"parse": "ok", "remaining": rest, "verify": verify, "reser": reser, "nframes": s.frame_count(), "frames_ok": frames_ok}), Some(s))
        }
    }
}

pub struct CaseResult {
    pub lines: Vec<Value>,
    pub kinds: BTreeSet<String>,
    pub outcome: String,
}

/// Runs one case and renders its events.  `with_counts` adds the reported bit counts (C08).
pub fn run_case(case: &Case, props: &[&str], with_counts: bool) -> CaseResult {
    let out = enc::encode(&case.cfg, case.source(), &case.mode);
    let mut kinds = BTreeSet::new();
    let mut out_len = 0usize;
    let (outcome, detail, bytes, stream) = match out {
        Outcome::Ok(s) => match enc::stream_bytes(&s) {
            Ok(b) => {
                out_len = b.len();
                ("ok".to_string(), String::new(), b, Some(s))
            }
            Err(e) => ("writefail".to_string(), e, vec![], None),
        },
        Outcome::Err(k, m) => (format!("err:{k}"), m, vec![], None),
        Outcome::Panic(m) => ("panic".to_string(), m, vec![], None),
    };
    // C14: the same case delivered the other way must give the same bytes
    let twin_equal = if props.contains(&"C14") {
        let mut twin = case.clone();
        twin.delivery = if case.delivery == Delivery::Ints { Delivery::Bytes } else { Delivery::Ints };
        match enc::encode(&twin.cfg, twin.source(), &twin.mode) {
            Outcome::Ok(s) => enc::stream_bytes(&s).map_or(false, |b| b == bytes && outcome == "ok"),
            _ => false,
        }
    } else {
        true
    };
    // C05: the same case through the other two ways of producing a stream must give the same bytes
    let modes_equal = if props.contains(&"C05") {
        let others: Vec<Mode> = match &case.mode {
            Mode::St => vec![Mode::Mt(2), Mode::Fl],
            Mode::Mt(w) => vec![Mode::St, Mode::Mt(w % 3 + 1), Mode::Fl],
            Mode::Fl => vec![Mode::St, Mode::Mt(3)],
        };
        // (the frame-level assembly of this harness takes the total from the context, the library's entry points
        //  take the source's hint: with a lying hint only the two library paths are comparable)
        let others: Vec<Mode> = if case.hint_delta != 0 { others.into_iter().filter(|m| !matches!(m, Mode::Fl)).collect() } else { others };
        others.iter().all(|m| match enc::encode(&case.cfg, case.source(), m) {
            Outcome::Ok(s) => enc::stream_bytes(&s).map_or(false, |b| b == bytes && outcome == "ok"),
            _ => false,
        })
    } else {
        true
    };
    let g = &case.g;
    // A stream far larger than the raw PCM (the estimate-based candidate selection can emit
    // frames of tens of megabytes) is reported by size only: C09 judges it, the other
    // properties skip it (TLC would need hours to decode the unary runs).
    let raw = g.n * g.ch * ((g.bps + 7) / 8);
    let oversize = outcome == "ok" && bytes.len() > 4 * raw + 65536;
    let stream_for_count: Option<(usize, ())> = stream.as_ref().map(|s| (s.count_bits(), ()));
    let (outcome, bytes, stream) = if oversize {
        ("oversize".to_string(), bytes[..42.min(bytes.len())].to_vec(), None)
    } else {
        (outcome, bytes, stream)
    };
    let nbytes_real = if oversize { detail_len(&out_len) } else { bytes.len() };
    let cap31 = |x: usize| x.min((1usize << 31) - 1) as i64;
    let (count_bytes, count_rem) = match (&stream_for_count, with_counts) {
        (Some((cb, _)), true) => (cap31(*cb / 8), (*cb % 8) as i64),
        _ => (-1, 0),
    };
    let mut lines = vec![json!({
        "ev": "case", "id": case.id, "props": props,
        "ch": g.ch, "bps": g.bps, "rate": g.rate, "bs": g.bs, "n": g.n,
        "maxp": case.cfg.max_parameter, "mode": case.mode.name(),
        "family": case.family, "relation": case.relation,
        "cfg": serde_json::to_string(&case.cfg).unwrap(),
        "outcome": outcome, "detail": detail,
        "nbytes": cap31(nbytes_real), "rawbytes": raw, "count_bytes": count_bytes, "count_rem": count_rem, "bytes": bytes, "twin_equal": twin_equal, "modes_equal": modes_equal,
        "delivery": format!("{:?}", case.delivery), "hint_delta": case.hint_delta,
        "count": stream.as_ref().map_or(-1i64, |s| if with_counts { s.count_bits() as i64 } else { -1 }),
    })];
    // C08 "through either in-memory sink type": the same stream written into the word-based sink - bits it
    // reports (len) and its byte export against the bytes of the byte-based sink
    let (w64, w64_same) = match (&stream, with_counts && !oversize) {
        (Some(s), true) => catch_unwind(AssertUnwindSafe(|| {
            let mut m = flacenc::bitsink::MemSink::<u64>::new();
            match s.write(&mut m) {
                Ok(()) => {
                    let mut dest = vec![0u8; (m.len() + 7) / 8];
                    m.write_to_byte_slice(&mut dest);
                    (cap31(m.len()), dest == bytes)
                }
                Err(_) => (-2, false),
            }
        }))
        .unwrap_or((-3, false)),
        _ => (-1, true),
    };
    lines[0]["w64"] = json!(w64);
    lines[0]["w64_same"] = json!(w64_same);
    let parsed = if props.contains(&"C15") && outcome == "ok" {
        let (p, ps) = parse_back(&bytes);
        lines[0]["p15"] = p;
        ps
    } else {
        lines[0]["p15"] = json!({"parse": "na", "remaining": 0, "verify": "na", "reser": true, "nframes": -1, "frames_ok": true});
        None
    };
    let nblk = if g.n == 0 { 0 } else { (g.n + g.bs - 1) / g.bs };
    for k in 0..nblk {
        let a = k * g.bs;
        let b = ((k + 1) * g.bs).min(g.n);
        let x: Vec<&[i32]> = case.chans.iter().map(|c| &c[a..b]).collect();
        let mut l = json!({"ev": "blk", "k": k, "x": x});
        if let Some(s) = &stream {
            if let Some(f) = s.frame(k) {
                for c in 0..f.subframe_count() {
                    kinds.insert(subframe_kind(f.subframe(c).unwrap()).to_string());
                }
                kinds.insert(format!("{:?}", f.header().channel_assignment()));
                if with_counts {
                    l["cb"] = reported_counts(s, k);
                }
                if let Some(pf) = parsed.as_ref().and_then(|ps| ps.frame(k)) {
                    l["t15"] = catch_unwind(AssertUnwindSafe(|| frame_projection(pf))).unwrap_or(json!({"n": -1, "chcode": -1, "subs": [], "dec": []}));
                }
            }
        }
        lines.push(l);
    }
    lines.push(json!({"ev": "end", "id": case.id}));
    CaseResult { lines, kinds, outcome }
}

pub struct Budget {
    pub cases: usize,
    pub small: bool,
    pub max_frames: usize,
    pub max_cost: u64,
    /// every `bigshare`-th case is one frame (plus a short one) of a BIG block (600..32767 samples); 0 = never
    pub bigshare: usize,
}

fn modes_cycle(i: usize) -> Mode {
    match i % 6 {
        0 | 1 => Mode::St,
        2 => Mode::Mt(1),
        3 => Mode::Mt(2),
        4 => Mode::Mt(3),
        _ => Mode::Fl,
    }
}

/// Systematic-plus-random case list.  `profile` biases towards what a property needs.
pub fn gen_cases(profile: &str, seed: u64, b: &Budget) -> Vec<Case> {
    let mut cases = vec![];
    let mut total: u64 = 0;
    let mut i = 0usize;
    while cases.len() < b.cases && i < b.cases * 4 {
        let mut rng: StdRng = gen::rng_for(seed, i as u64);
        let idx = i;
        i += 1;
        let bps = gen::WIDTHS[idx % 5];
        let mut family = gen::FAMILIES[(idx / 5) % gen::FAMILIES.len()].to_string();
        let ch = match (idx / 3) % 8 {
            0 | 1 => 1,
            2 | 3 | 4 => 2,
            5 => rng.gen_range(3..=5),
            6 => rng.gen_range(6..=8),
            _ => rng.gen_range(1..=8),
        };
        let relation = gen::RELATIONS[(idx / 7) % gen::RELATIONS.len()].to_string();
        let mut bs = gen::block_size(&mut rng, b.small);
        let mut cfg = gen::config(&mut rng, bs);
        let mut wide: Option<usize> = None;
        let mut mode = modes_cycle(idx);
        let mut bps = bps;
        match profile {
            "c09" | "c13" => {
                // loud / heavy tailed content, restricted parameters, both order selectors
                if idx % 2 == 0 {
                    bps = if idx % 4 == 0 { 24 } else { 20 };
                }
                family = ["noise_full", "nearverb", "cauchy", "riceadv", "nearverb", "altfull", "thresh", "nearverb", "impulse", "noise_mid", "nearverb", "sine"]
                    [(idx / 2) % 12]
                    .to_string();
                if family == "nearverb" && profile == "c09" {
                    // one channel, default parameter range, both order selectors, small blocks
                    cfg.max_parameter = 14;
                    cfg.use_lpc = idx % 4 == 0;
                    bs = [64, 96, 128, 160, 192, 256][(idx / 24) % 6];
                }
                cfg.max_parameter = [14, 0, 1, 2, 14, 7, 14, 3][(idx / 3) % 8];
                cfg.partitions = [Some(16), None, Some(1), Some(64), None][(idx / 5) % 5];
                if profile == "c09" && idx % 25 == 12 {
                    // coded size within a few hundred bits of verbatim on large blocks with many partitions
                    family = "nearverb2".to_string();
                    bps = [16usize, 12, 16, 8, 20][(idx / 25) % 5];
                    bs = [4096usize, 1024, 2048, 4096, 1024][(idx / 50) % 5];
                    cfg = Cfg { block_size: bs, ..Cfg::default() };
                    match (idx / 25) % 4 {
                        1 => cfg.use_fixed = false,
                        2 => cfg.use_lpc = false,
                        3 => cfg.partitions = None,
                        _ => {}
                    }
                    mode = Mode::St;
                    wide = Some(1);
                }
                if profile == "c09" && idx % 25 == 7 {
                    // coded sizes of 2^32 + delta bits: 32-bit size accumulators wrap
                    family = "wrap32".to_string();
                    bps = if idx % 50 == 7 { 24 } else { 20 };
                    bs = if bps == 24 { [384, 1024, 4096, 600][(idx / 50) % 4] } else { [4608, 8192][(idx / 50) % 2] };
                    cfg = Cfg { block_size: bs, max_parameter: if idx % 75 == 7 { 0 } else { 14 }, use_lpc: idx % 100 != 7, ..Cfg::default() };
                    mode = Mode::St;
                }
                if profile == "c13" {
                    bs = [64, 128, 192, 256, 512, 576, 1024, 320][(idx / 2) % 8];
                    cfg.block_size = bs;
                    mode = Mode::St;
                    if idx % 100 == 77 {
                        // very long blocks with few factors of two (one or two huge partitions): per-partition cost
                        // sums reach 2^17 and more although the content is quiet
                        family = "quietnoise".to_string();
                        bs = [32767usize, 24001, 22052, 32766][(idx / 100) % 4];
                        cfg = Cfg { block_size: bs, use_lpc: idx % 200 == 77, max_parameter: 14, ..Cfg::default() };
                        bps = [16usize, 24, 12][(idx / 100) % 3];
                        wide = Some(1);
                    } else if idx % 100 == 53 {
                        // long blocks: more than 64 partitions of 64 samples are possible (orders 7 and 8), and
                        // the loudness alternates every 64 samples so that the finest orders are the optimum
                        family = format!("nonstat{}", 1 + (idx / 100) % 3);
                        bs = [8192, 16384][(idx / 100) % 2];
                        cfg = Cfg { block_size: bs, use_lpc: idx % 200 == 53, max_parameter: 14, ..Cfg::default() };
                        bps = 16;
                        wide = Some(1);
                    } else if idx % 20 == 11 {
                        // a loud attack at the head of the block, then a quiet strongly correlated tail, under a high LPC
                        // order with coarse coefficient precision (trailing coefficients quantise to zero: the effective
                        // order is below the configured one), fixed predictors off
                        family = "attack".to_string();
                        bps = 16;
                        bs = [512usize, 1024, 256, 4096][(idx / 20) % 4];
                        cfg = Cfg { block_size: bs, use_fixed: false, lpc_order: [24usize, 16, 20, 24][(idx / 20) % 4],
                                    quant_precision: [4usize, 3, 5, 4][(idx / 40) % 4], max_parameter: 14, ..Cfg::default() };
                        wide = Some(1);
                    } else if idx % 5 == 2 {
                        // loud bursts in quiet low-width blocks: per-partition parameters at and above bits_per_sample - 1
                        family = "burst".to_string();
                        bps = [8usize, 12, 8, 16, 8][(idx / 5) % 5];
                        bs = [256usize, 512, 1024, 320, 2048][(idx / 25) % 5];
                        cfg = Cfg { block_size: bs, use_lpc: idx % 10 == 2, max_parameter: 14,
                                    partitions: if idx % 15 == 2 { Some(16) } else { None }, fixed_max_order: [4usize, 0, 2][(idx / 5) % 3], ..Cfg::default() };
                        wide = Some(1);
                    } else if idx % 10 == 9 {
                        // blocks that admit ONE partition only (odd or short lengths) with loud smooth content:
                        // predictor order > 0, the warm-up samples must not enter the choice of the parameter
                        family = ["ramp", "sine", "poly", "step", "nyqsmooth"][(idx / 10) % 5].to_string();
                        bs = [65usize, 97, 127, 101, 191, 333, 1001][(idx / 10) % 7];
                        cfg = Cfg { block_size: bs, use_lpc: idx % 20 == 9, max_parameter: 14, partitions: if idx % 30 == 9 { Some(16) } else { None },
                                    ..Cfg::default() };
                        bps = [16usize, 24, 12, 20][(idx / 10) % 4];
                        wide = Some(1);
                    } else if idx % 5 == 1 {
                        // partition-order cost curve with a local minimum at the 64-sample scale and the
                        // global one far coarser; the signal is its own residual (fixed order 0 allowed only)
                        family = "ricebump".to_string();
                        bs = [512, 1024, 2048, 1024, 256][(idx / 5) % 5];
                        cfg.block_size = bs;
                        cfg.use_lpc = false;
                        cfg.use_fixed = true;
                        cfg.use_constant = true;
                        cfg.fixed_max_order = if idx % 10 == 1 { 0 } else { 4 };
                        cfg.max_parameter = 14;
                        cfg.partitions = if idx % 15 == 1 { Some(16) } else { None };
                        bps = 16;
                    } else if idx % 3 == 0 {
                        // non-stationary residuals under a small configured maximum parameter
                        let b = (idx / 3) % 5;
                        family = format!("nonstat{b}");
                        cfg.max_parameter = [b, b + 1, b.saturating_sub(1), b][(idx / 15) % 4];
                        cfg.use_lpc = idx % 2 == 0;
                        cfg.use_constant = true;
                        cfg.use_fixed = true;
                        cfg.fixed_max_order = 4;
                        bs = [256, 512, 1024, 384, 2048][(idx / 6) % 5];
                        cfg.block_size = bs;
                        bps = [16, 8, 12, 16][(idx / 9) % 4];
                    }
                }
            }
            "c01" | "c15" if idx % 30 == 10 => {
                // the same, at the block sizes where the default predictor is actually chosen and with the
                // level right at the edge of the 32-bit window: one big mono frame
                bps = if idx % 60 == 10 { 24 } else { 20 };
                family = "dcedge".to_string();
                bs = [4096, 2048, 3072, 4096][(idx / 30) % 4];
                cfg = Cfg { block_size: bs, ..Cfg::default() };
                mode = if idx % 90 == 10 { Mode::Mt(2) } else { Mode::St };
            }
            "c01" | "c15" if idx % 15 == 5 => {
                // exact full-scale sinusoids at 20 / 24 bit, default predictor and reduced precisions
                bps = if idx % 30 == 5 { 20 } else { 24 };
                family = "fullsine".to_string();
                gen::FULLSINE_PICK.with(|p| p.set(idx / 30));
                bs = [1024usize, 4096, 512, 2048][(idx / 15) % 4];
                cfg = Cfg { block_size: bs, ..Cfg::default() };
                if bps == 24 && idx % 90 != 50 {
                    cfg.quant_precision = [9usize, 10, 11, 12, 13][(idx / 30) % 5];
                }
                mode = Mode::St;
                wide = Some(1);
            }
            "c01" | "c15" | "c02" | "c08" if idx % 6 == 4 => {
                // threshold-directed for the i32 / i64 residual paths: DC + noise at 20/24 bit with the
                // default predictor (order 10, precision 15), where sum|coef| ~ 2^shift
                bps = if idx % 12 == 4 { 24 } else { 20 };
                family = "dcnoise".to_string();
                let keep = cfg.block_size;
                cfg = Cfg { block_size: keep, ..Cfg::default() };
                if idx % 24 == 4 {
                    cfg.lpc_order = 4 + idx % 20;
                    cfg.alpha = None;
                }
            }
            "c03" | "c05" | "c14" if idx % 25 == 21 => {
                // many interleaved samples per block (block size x channels well above 2^14) with channel counts
                // that are not powers of two: internal chunking of the hashing / conversion paths
                let k = idx / 25;
                let (b, c) = [(4096usize, 6usize), (6000, 3), (2731, 7), (4096, 5), (2304, 8), (16384, 2), (3277, 5), (8192, 3)][k % 8];
                bs = b;
                wide = Some(c);
                cfg = Cfg { block_size: bs, use_lpc: false, fixed_max_order: 1, ..Cfg::default() };
                mode = [Mode::Mt(2), Mode::St, Mode::Mt(3), Mode::Mt(1)][k % 4].clone();
                bps = [16, 24, 8, 20, 12][k % 5];
            }
            "c04" | "c08" if idx % 100 == 41 && b.cases > 2000 => {
                // (thorough tier only: TLC needs two minutes for such a frame; the quick tier judges the same content
                //  through the digest of `fv long`)
                // a quotient of 2^16 or more next to many small ones, under a low Rice limit, single-thread
                let k = [7usize, 6, 5][(idx / 100) % 3];
                family = format!("impnoise{k}");
                bps = 24;
                bs = 16384;
                cfg = Cfg { block_size: bs, max_parameter: k, use_lpc: false, fixed_max_order: 1, partitions: None, ..Cfg::default() };
                mode = Mode::St;
                wide = Some(1);
            }
            "c08" if idx % 25 == 7 => {
                // coded sizes of 2^32 + delta bits: reported sizes kept in 32 bits wrap (see the c09 profile)
                family = "wrap32".to_string();
                bps = if idx % 50 == 7 { 24 } else { 20 };
                bs = if bps == 24 { [384, 1024, 4096, 600][(idx / 50) % 4] } else { [4608, 8192][(idx / 50) % 2] };
                cfg = Cfg { block_size: bs, max_parameter: if idx % 75 == 7 { 0 } else { 14 }, use_lpc: idx % 100 != 7,
                            fixed_max_order: if idx % 3 == 0 { 0 } else { 4 }, partitions: if idx % 2 == 0 { Some(16) } else { None }, ..Cfg::default() };
                mode = Mode::St;
            }
            "c01" | "c02" | "c04" | "c05" | "c08" | "c15" if idx % 20 == 13 => {
                // weakly correlated content under the default predictor: LPC subframes whose coefficients are all
                // tiny (quantiser shift saturated at its maximum)
                family = "weakar".to_string();
                bps = if idx % 40 == 13 { 16 } else { 24 };
                bs = [1024usize, 2048, 4096][(idx / 20) % 3];
                cfg = Cfg { block_size: bs, ..Cfg::default() };
                mode = if idx % 80 == 73 { Mode::Mt(2) } else { Mode::St };
                wide = Some(1);
            }
            "c04" => {
                mode = if idx % 3 == 0 { Mode::Mt(2) } else if idx % 3 == 1 { Mode::St } else { Mode::Mt(1) };
            }
            _ => {}
        }
        cfg.block_size = bs;
        // every 40th case is a long stream of tiny blocks: frame numbers beyond one byte
        // (>= 128; in the thorough tier also >= 2048), extreme frames late in the stream
        let long = idx % 40 == 7 && profile != "c13";
        if long {
            bs = 32 + idx % 5;
            cfg.block_size = bs;
            cfg.use_lpc = false;
        }
        let big = b.bigshare > 0 && idx % b.bigshare == b.bigshare / 2 && !long && !["dcedge", "ricebump", "wrap32", "fullsine", "nearverb2"].contains(&family.as_str()) && !family.starts_with("impnoise") && profile != "c13";
        if big {
            bs = [4096usize, 9216, 2304, 18432, 8192, 16384, 4608, 32767, 1152, 12000][(idx / b.bigshare) % 10];
            cfg.block_size = bs;
        }
        let mut n = gen::length(&mut rng, bs, b.max_frames);
        let mut ch = ch;
        if big {
            ch = if bs >= 8192 { 1 } else { 1 + (idx / b.bigshare) % 2 };
            n = bs + [0usize, 1, 40, 0][(idx / b.bigshare) % 4];
        }
        if family == "dcedge" {
            ch = 1;
            n = bs + idx % 7;
        }
        if family == "ricebump" || family == "wrap32" {
            ch = 1;
            n = bs;
        }
        if let Some(c) = wide {
            ch = c;
            n = if profile == "c13" || family == "nearverb2" { bs } else if family.starts_with("impnoise") { bs + 50 } else { bs * (1 + idx % 2) + [0usize, 1, 100][idx % 3] };
        }
        if long {
            ch = 1 + idx % 2;
            let frames = if b.cases > 2000 && idx % 80 == 7 { rng.gen_range(2049..2200) } else { rng.gen_range(129..300) };
            n = frames * bs - rng.gen_range(0..bs);
            family = if idx % 80 == 7 { "silence" } else { "noise_lo" }.to_string();
        }
        let g = Geometry { ch, bps, rate: gen::rate(&mut rng), bs, n };

        let mut chans = gen::signal(&mut rng, &family, &relation, ch, bps, n);
        if long && n > 200 * bs {
            // a loud burst in one late frame and a constant one in another: the unique largest and
            // smallest frames carry multi-byte frame numbers
            let hi = (1i64 << (bps - 1)) - 1;
            let f1 = 130 + idx % 60;
            for t in f1 * bs..(f1 + 1) * bs {
                chans[0][t] = rng.gen_range(-hi..=hi) as i32;
            }
            let f2 = 131 + (idx * 7) % 60;
            for c in chans.iter_mut() {
                for t in f2 * bs..(f2 + 1) * bs {
                    c[t] = 0;
                }
            }
        }
        let delivery = if rng.gen_bool(if wide.is_some() { 0.15 } else { 0.3 }) { Delivery::Bytes } else { Delivery::Ints };
        // a source that mixes both deliveries within one stream (explicit class, independent of the rng stream)
        let delivery = if idx % 7 == 5 || (wide.is_some() && idx % 3 == 1) { Delivery::Mixed } else { delivery };
        let family = if long { format!("long:{family}") } else { family };
        // the configuration's own block-size field differs from the requested block size in about a third of the cases (moduli coprime to the mode cycle)
        if idx % 5 == 1 || idx % 7 == 3 {
            cfg.field_bs = [4096usize, 32, 32767, 1152, (bs + 1).min(32767), 4096][(idx / 5) % 6];
        }
        let lying_hint = if profile == "c05" && idx % 9 == 4 && !matches!(mode, Mode::Fl) { [37i64, -3, 5000, -1][(idx / 9) % 4] } else { 0 };
        let case = Case {
            id: format!("{profile}-{seed}-{idx}"),
            g,
            family,
            relation,
            cfg,
            mode,
            delivery,
            hint: rng.gen_bool(if wide.is_some() { 0.25 } else { 0.6 }),
            hint_delta: lying_hint,
            fill_at_eof: rng.gen_bool(0.6),
            chans,
        };
        if total + case.cost() > b.max_cost && !cases.is_empty() {
            continue;
        }
        total += case.cost();
        cases.push(case);
    }
    cases
}

/// All lengths around the block size for tiny block sizes (C04's residue sweep).
pub fn gen_length_sweep(seed: u64, thorough: bool) -> Vec<Case> {
    let mut cases = vec![];
    let mut idx = 0usize;
    let bss: &[usize] = if thorough { &[32, 33, 64, 192] } else { &[32, 33] };
    for &bs in bss {
        let lens: Vec<usize> = if bs <= 64 {
            (0..=2 * bs + 1).collect()
        } else {
            let mut v: Vec<usize> = (0..=17).collect();
            v.extend((0..=17).map(|r| bs + r));
            v.extend([bs - 1, 2 * bs - 1, 2 * bs, 2 * bs + 1]);
            v
        };
        for n in lens {
            let mut rng = gen::rng_for(seed ^ 0x5eed, idx as u64);
            let bps = gen::WIDTHS[idx % 5];
            let ch = 1 + idx % 2;
            let family = ["sine", "noise_lo", "dc", "noise_mid"][idx % 4].to_string();
            let chans = gen::signal(&mut rng, &family, "indep", ch, bps, n);
            let mut cfg = Cfg { block_size: bs, ..Cfg::default() };
            cfg.use_lpc = idx % 3 != 0;
            cases.push(Case {
                id: format!("sweep-{bs}-{n}"),
                g: Geometry { ch, bps, rate: 44100, bs, n },
                family,
                relation: "indep".into(),
                cfg,
                mode: match idx % 4 { 0 => Mode::St, 1 => Mode::Mt(2), 2 => Mode::Fl, _ => Mode::Mt(1) },
                delivery: Delivery::Ints,
                hint: idx % 2 == 0,
                hint_delta: 0,
                fill_at_eof: true,
                chans,
            });
            idx += 1;
        }
    }
    cases
}

pub struct Summary {
    pub cases: usize,
    pub classes: BTreeSet<String>,
    pub kinds: BTreeSet<String>,
    pub outcomes: BTreeSet<String>,
    pub samples: Vec<Value>,
    pub files: Vec<String>,
}

/// A frame, its header and a two-frame stream written into sinks that fail at various operations.
fn failed_write_prelude(i: usize) {
    use flacenc::component::BitRepr;
    let _ = std::panic::catch_unwind(std::panic::AssertUnwindSafe(|| {
        let g = Geometry { ch: 1 + i % 2, bps: 16, rate: 44100, bs: 64, n: 150 };
        let mut rng = gen::rng_for(77, i as u64);
        let chans = gen::signal(&mut rng, "noise_mid", "indep", g.ch, g.bps, g.n);
        let cfg = Cfg { block_size: 64, ..Cfg::default() };
        for mode in [Mode::Fl, Mode::St] {
            if let Outcome::Ok(s) = enc::encode(&cfg, VecSource::new(&g, gen::interleave(&chans)), &mode) {
                if let Some(f) = s.frame(0) {
                    let mut u = crate::sink::UserSink::new(Some(i % 7), false);
                    let _ = f.write(&mut u);
                    let mut u = crate::sink::UserSink::new(Some(i % 3), false);
                    let _ = f.header().write(&mut u);
                }
                let mut u = crate::sink::UserSink::new(Some(5 + i % 20), false);
                let _ = s.write(&mut u);
            }
        }
    }));
}

fn other_parameters_prelude(c: &Case, i: usize) {
    let _ = std::panic::catch_unwind(std::panic::AssertUnwindSafe(|| {
        let bs = c.g.bs;
        let n = (bs * (1 + i % 2)).min(c.g.n);
        if n == 0 || bs > 8192 {
            return;
        }
        let g = Geometry { ch: c.g.ch, bps: c.g.bps, rate: c.g.rate, bs, n };
        let chans: Vec<Vec<i32>> = c.chans.iter().map(|x| x[..n].to_vec()).collect();
        let mut cfg = c.cfg.clone();
        cfg.field_bs = 0;
        cfg.alpha = match cfg.alpha {
            None => Some(0.4),
            Some(a) if a > 0.5 => None,
            Some(a) => Some(a + 0.25),
        };
        cfg.lpc_order = 1 + (cfg.lpc_order + 3) % 24;
        cfg.quant_precision = 1 + (cfg.quant_precision + 4) % 15;
        cfg.use_lpc = true;
        let _ = enc::encode(&cfg, VecSource::new(&g, gen::interleave(&chans)), &Mode::St);
    }));
}

fn shorter_block_prelude(c: &Case, i: usize) {
    let _ = std::panic::catch_unwind(std::panic::AssertUnwindSafe(|| {
        let bs = (64 + i % 37).min(c.g.bs.max(32));
        let n = bs.min(c.g.n);
        if n == 0 {
            return;
        }
        let g = Geometry { ch: c.g.ch, bps: c.g.bps, rate: c.g.rate, bs, n };
        let chans: Vec<Vec<i32>> = c.chans.iter().map(|x| x[..n].to_vec()).collect();
        let mut cfg = c.cfg.clone();
        cfg.block_size = bs;
        cfg.field_bs = 0;
        let _ = enc::encode(&cfg, VecSource::new(&g, gen::interleave(&chans)), &Mode::St);
        let _ = enc::encode(&cfg, VecSource::new(&g, gen::interleave(&chans)), &Mode::Fl);
    }));
}

pub fn drive(cases: &[Case], props: &[&str], with_counts: bool, out: &Path, prefix: &str, shards: usize) -> Summary {
    let mut sh = Shards::new(out, prefix);
    let mut classes = BTreeSet::new();
    let mut kinds = BTreeSet::new();
    let mut outcomes = BTreeSet::new();
    let mut samples = vec![];
    for (i, c) in cases.iter().enumerate() {
        // all cases run on this one thread, so each case's history is every case before it; every fifth
        // case is also preceded by writes that FAIL part-way (thread-local scratch buffers on error paths)
        if i % 5 == 2 {
            failed_write_prelude(i);
        }
        // ... and every fifth case by an encode of a SHORTER block with the same configuration on this thread
        // (per-thread caches keyed by configuration values must not depend on the sizes seen before)
        if i % 5 == 4 {
            shorter_block_prelude(c, i);
        }
        // ... and every fifth case by an encode of the SAME block size under another analysis window / predictor
        // setting (state keyed by the size alone must not leak parameters from one call to the next)
        if i % 5 == 0 {
            other_parameters_prelude(c, i);
        }
        let r = run_case(c, props, with_counts);
        classes.insert(c.class());
        kinds.extend(r.kinds.iter().cloned());
        outcomes.insert(r.outcome.clone());
        if i < 3 {
            samples.push(json!({"id": c.id, "geometry": c.g, "family": c.family, "relation": c.relation,
                "mode": c.mode.name(), "cfg": c.cfg, "outcome": r.outcome}));
        }
        sh.push(c.cost(), r.lines);
    }
    let files = sh.write(shards);
    Summary {
        cases: cases.len(),
        classes,
        kinds,
        outcomes,
        samples,
        files: files.iter().map(|p| p.to_string_lossy().to_string()).collect(),
    }
}
