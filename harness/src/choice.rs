//! Model conformance of the encoder's *decision rules* (EncoderChoice.tla / TraceChoice.tla).
//!
//! One block is encoded through `encode_fixed_size_frame` under every subset of the switches that
//! take part in a decision and the chosen alternative plus the bit counts are logged:
//!   * `stereo`: the 8 subsets of {left-side, right-side, mid-side}; the four candidate subframe
//!     sizes (L, R, M, S) are measured independently by encoding each channel as a mono frame
//!     (the side channel with one more bit per sample);
//!   * `sub`: the 8 subsets of {constant, fixed, lpc} on a mono block.
//! TLC predicts every run from the single-switch measurements with the rules of the model.

use crate::gen::{self, Cfg};
use crate::trace::Shards;
use crate::Args;
use flacenc::component::{BitRepr, ChannelAssignment, Frame, StreamInfo, SubFrame};
use flacenc::error::Verify;
use flacenc::source::{Fill, FrameBuf};
use rand::Rng;
use serde_json::{json, Value};
use std::collections::BTreeSet;
use std::path::PathBuf;

fn frame_of(cfg: &Cfg, chans: &[Vec<i32>], bps: usize) -> Result<Frame, String> {
    let r = std::panic::catch_unwind(std::panic::AssertUnwindSafe(|| -> Result<Frame, String> {
        let n = chans[0].len();
        let verified = cfg.to_encoder().into_verified().map_err(|(_, e)| format!("config: {e}"))?;
        let info = StreamInfo::new(44100, chans.len(), bps).map_err(|e| format!("info: {e}"))?;
        let mut fb = FrameBuf::with_size(chans.len(), n).map_err(|e| format!("framebuf: {e}"))?;
        fb.fill_interleaved(&gen::interleave(chans)).map_err(|e| format!("fill: {e}"))?;
        flacenc::encode_fixed_size_frame(&verified, &fb, 0, &info).map_err(|e| format!("encode: {e}"))
    }));
    match r {
        Ok(x) => x,
        Err(p) => Err(format!("panic: {}", crate::enc::panic_message(p))),
    }
}

fn kind_of(s: &SubFrame) -> &'static str {
    match s {
        SubFrame::Constant(_) => "constant",
        SubFrame::Verbatim(_) => "verbatim",
        SubFrame::FixedLpc(_) => "fixed",
        SubFrame::Lpc(_) => "lpc",
    }
}

fn ch_code(a: &ChannelAssignment) -> i64 {
    match a {
        ChannelAssignment::Independent(n) => *n as i64 - 1,
        ChannelAssignment::LeftSide => 8,
        ChannelAssignment::RightSide => 9,
        ChannelAssignment::MidSide => 10,
    }
}

fn mono_bits(cfg: &Cfg, x: &[i32], bps: usize) -> Result<(i64, &'static str), String> {
    let f = frame_of(cfg, &[x.to_vec()], bps)?;
    let s = f.subframe(0).ok_or("no subframe")?;
    Ok((s.count_bits() as i64, kind_of(s)))
}

pub fn cmd_choice(a: &Args) {
    let thorough = a.get("tier", "quick") == "thorough";
    let seed = a.num("seed", 1);
    let out = PathBuf::from(a.get("out", "/verif/.work/choice"));
    let ncases = a.num("cases", if thorough { 1500 } else { 240 }) as usize;
    let mut sh = Shards::new(&out, "choice");
    let mut classes = BTreeSet::new();
    let mut errors: Vec<Value> = vec![];
    let mut nst = 0usize;
    let mut nsub = 0usize;
    let mut nladder = 0usize;
    for idx in 0..ncases {
        let mut rng = gen::rng_for(seed, 7000 + idx as u64);
        let bps = [8usize, 12, 16, 20, 24][idx % 5];
        let family = gen::FAMILIES[(idx / 5) % gen::FAMILIES.len()];
        let n = [64usize, 65, 96, 128, 192, 256, 33, 63, 512, 100][(idx / 3) % 10];
        let mut cfg = if idx % 4 == 0 { Cfg::default() } else { gen::config(&mut rng, n) };
        cfg.block_size = n;
        cfg.multithread = false;
        if idx % 2 == 0 {
            // ---------------------------------------------------------------- stereo decision
            let relation = gen::RELATIONS[(idx / 2) % gen::RELATIONS.len()];
            let mut chans = gen::signal(&mut rng, family, relation, 2, bps, n);
            if idx % 14 == 6 {
                // exact ties: right = left, or one channel silent
                chans[1] = if idx % 28 == 6 { chans[0].clone() } else { vec![0; n] };
            }
            let l = &chans[0];
            let r = &chans[1];
            let m: Vec<i32> = l.iter().zip(r).map(|(a, b)| (a + b) >> 1).collect();
            let s: Vec<i32> = l.iter().zip(r).map(|(a, b)| a - b).collect();
            let id = format!("st-{seed}-{idx}");
            let cand = (|| -> Result<[(i64, &'static str); 4], String> {
                Ok([mono_bits(&cfg, l, bps)?, mono_bits(&cfg, r, bps)?, mono_bits(&cfg, &m, bps)?, mono_bits(&cfg, &s, bps + 1)?])
            })();
            let cand = match cand {
                Ok(c) => c,
                Err(e) => {
                    errors.push(json!({"id": id, "what": e}));
                    continue;
                }
            };
            let mut runs = vec![];
            let mut bad = None;
            for mask in 0..8u32 {
                let mut c = cfg.clone();
                c.use_leftside = mask & 1 != 0;
                c.use_rightside = mask & 2 != 0;
                c.use_midside = mask & 4 != 0;
                match frame_of(&c, &chans, bps) {
                    Ok(f) => runs.push(json!({
                        "ls": c.use_leftside, "rs": c.use_rightside, "ms": c.use_midside,
                        "ch": ch_code(f.header().channel_assignment()),
                        "b0": f.subframe(0).map_or(-1, |s| s.count_bits() as i64),
                        "b1": f.subframe(1).map_or(-1, |s| s.count_bits() as i64),
                        "k0": f.subframe(0).map_or("none", kind_of),
                        "k1": f.subframe(1).map_or("none", kind_of),
                    })),
                    Err(e) => bad = Some(e),
                }
            }
            if let Some(e) = bad {
                errors.push(json!({"id": id, "what": e}));
                continue;
            }
            classes.insert(format!("st/{bps}/{family}/{relation}/{}", runs.iter().map(|r| r["ch"].to_string()).collect::<Vec<_>>().join("")));
            nst += 1;
            sh.push(
                10,
                vec![json!({"ev": "stereo", "id": id, "n": n, "bps": bps, "family": family, "relation": relation,
                            "l": cand[0].0, "r": cand[1].0, "m": cand[2].0, "s": cand[3].0,
                            "kl": cand[0].1, "kr": cand[1].1, "km": cand[2].1, "ks": cand[3].1, "runs": runs})],
            );
        } else {
            // ---------------------------------------------------------------- subframe decision
            let mut x = gen::channel(&mut rng, family, bps, n);
            if idx % 22 == 5 {
                let v = x[0];
                x = vec![v; n];
            }
            let isconst = x.iter().all(|v| *v == x[0]);
            let id = format!("sf-{seed}-{idx}");
            let mut runs = vec![];
            let mut bad = None;
            for mask in 0..8u32 {
                let mut c = cfg.clone();
                c.use_constant = mask & 1 != 0;
                c.use_fixed = mask & 2 != 0;
                c.use_lpc = mask & 4 != 0;
                match mono_bits(&c, &x, bps) {
                    Ok((bits, kind)) => runs.push(json!({"c": c.use_constant, "f": c.use_fixed, "l": c.use_lpc, "kind": kind, "bits": bits})),
                    Err(e) => bad = Some(e),
                }
            }
            if let Some(e) = bad {
                errors.push(json!({"id": id, "what": e}));
                continue;
            }
            // the fixed-predictor order ladder: maximum orders 0..4 with order selection by bit count
            if idx % 3 == 1 {
                let mut lruns = vec![];
                let mut lbad = None;
                for j in 0..=4usize {
                    let mut c = cfg.clone();
                    c.use_constant = false;
                    c.use_fixed = true;
                    c.use_lpc = false;
                    c.partitions = None;
                    c.fixed_max_order = j;
                    match frame_of(&c, &[x.clone()], bps) {
                        Ok(f) => {
                            let s = f.subframe(0).unwrap();
                            let order = if let SubFrame::FixedLpc(fl) = s { fl.order() as i64 } else { 0 };
                            lruns.push(json!({"j": j, "kind": kind_of(s), "order": order, "bits": s.count_bits()}));
                        }
                        Err(e) => lbad = Some(e),
                    }
                }
                match lbad {
                    None => {
                        classes.insert(format!("ladder/{bps}/{}", lruns.iter().map(|r| r["order"].to_string()).collect::<String>()));
                        nladder += 1;
                        sh.push(5, vec![json!({"ev": "ladder", "id": format!("ld-{seed}-{idx}"), "n": n, "bps": bps, "family": family, "runs": lruns})]);
                    }
                    Some(e) => errors.push(json!({"id": format!("ld-{seed}-{idx}"), "what": e})),
                }
            }
            classes.insert(format!("sf/{bps}/{family}/{}", runs.iter().map(|r| r["kind"].as_str().unwrap()[..1].to_string()).collect::<String>()));
            nsub += 1;
            sh.push(5, vec![json!({"ev": "sub", "id": id, "n": n, "bps": bps, "family": family, "isconst": isconst, "runs": runs})]);
        }
        let _ = rng.gen::<u8>();
    }
    let files = sh.write(a.num("shards", 4) as usize);
    println!("{}", json!({"cases": nst + nsub + nladder, "stereo": nst, "sub": nsub, "ladder": nladder, "classes": classes.len(), "errors": errors, "files": files}));
}
