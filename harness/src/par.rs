//! Drivers for the multi-thread encoder: deterministic (scheduler) and free-running runs of
//! small faulty or fault-free sources, judged against the single-thread run of the same source.

use crate::enc::{self, Delivery, Mode, Outcome, VecSource};
use crate::gen::{self, Cfg, Geometry};
use crate::sched::{Policy, RunReport, Sched};
use once_cell_lite::Global;
use rand::Rng;
use serde::Serialize;
use std::sync::Arc;
use std::time::{Duration, Instant};

/// tiny replacement for once_cell (not a dependency of the harness)
pub mod once_cell_lite {
    use std::sync::Mutex;
    pub struct Global<T>(pub Mutex<Option<T>>);
    impl<T: Clone> Global<T> {
        pub const fn new() -> Self {
            Global(Mutex::new(None))
        }
        pub fn set(&self, v: Option<T>) {
            *self.0.lock().unwrap_or_else(|e| e.into_inner()) = v;
        }
        pub fn get(&self) -> Option<T> {
            self.0.lock().unwrap_or_else(|e| e.into_inner()).clone()
        }
    }
}

pub static CURRENT: Global<Arc<Sched>> = Global::new();
pub static PANICS: std::sync::atomic::AtomicUsize = std::sync::atomic::AtomicUsize::new(0);

pub fn install_panic_hook() {
    std::panic::set_hook(Box::new(|info| {
        PANICS.fetch_add(1, std::sync::atomic::Ordering::SeqCst);
        if std::env::var("FV_PANIC_VERBOSE").is_ok() {
            eprintln!("[panic] {:?}: {info}", std::thread::current().id());
        }
        if let Some(s) = CURRENT.get() {
            s.note_panic();
        }
    }));
}

#[derive(Serialize, Clone, Debug)]
pub struct ParCase {
    pub id: String,
    pub ch: usize,
    pub bps: usize,
    pub bs: usize,
    /// number of blocks the source holds
    pub nblocks: usize,
    /// samples in the last block (1..=bs)
    pub last_len: usize,
    pub workers: usize,
    /// the k-th read (0-based) fails
    pub fail_at: Option<usize>,
    /// blocks holding one sample just outside the declared width
    pub bad: Vec<usize>,
    pub fill_at_eof: bool,
    pub bytes_delivery: bool,
    pub hint: bool,
    pub seed: u64,
}

impl ParCase {
    pub fn geometry(&self) -> Geometry {
        let n = if self.nblocks == 0 { 0 } else { (self.nblocks - 1) * self.bs + self.last_len };
        Geometry { ch: self.ch, bps: self.bps, rate: 44100, bs: self.bs, n }
    }
    pub fn chans(&self) -> Vec<Vec<i32>> {
        let g = self.geometry();
        let mut rng = gen::rng_for(self.seed, 77);
        let mut chans = gen::signal(&mut rng, "sine", "indep", g.ch, g.bps, g.n);
        // make every block distinct and mark bad blocks
        for k in 0..self.nblocks {
            let t = k * self.bs;
            if t < g.n {
                chans[0][t] = (k as i32 * 37 + 5) % (1 << (g.bps - 2));
            }
        }
        for &k in &self.bad {
            let t = k * self.bs + (if k + 1 == self.nblocks { self.last_len } else { self.bs }) / 2;
            if t < g.n {
                let c = rng.gen_range(0..g.ch);
                chans[c][t] = 1 << (g.bps - 1); // one above the maximum
            }
        }
        chans
    }
    pub fn source(&self) -> VecSource {
        let g = self.geometry();
        let mut s = VecSource::new(&g, gen::interleave(&self.chans()));
        s.fail_at = self.fail_at;
        s.fill_at_eof = self.fill_at_eof;
        s.hint = self.hint;
        // an out-of-range sample cannot be expressed in packed bytes of the same width
        if self.bytes_delivery && self.bad.is_empty() {
            s.delivery = Delivery::Bytes;
        }
        s
    }
    pub fn cfg(&self) -> Cfg {
        Cfg { block_size: self.bs, use_lpc: false, ..Cfg::default() }
    }
}

#[derive(Serialize, Clone, Debug)]
pub struct Judged {
    /// "ok" | "err:source" | "err:config" | "panic"
    pub outcome: String,
    pub detail: String,
    pub bytes: Option<Vec<u8>>,
}

pub fn judge(out: Outcome) -> Judged {
    match out {
        Outcome::Ok(s) => match enc::stream_bytes(&s) {
            Ok(b) => Judged { outcome: "ok".into(), detail: String::new(), bytes: Some(b) },
            Err(e) => Judged { outcome: "writefail".into(), detail: e, bytes: None },
        },
        Outcome::Err(k, m) => Judged { outcome: format!("err:{k}"), detail: m, bytes: None },
        Outcome::Panic(m) => Judged { outcome: "panic".into(), detail: m, bytes: None },
    }
}

/// Reference behaviour: the same source through the single-thread entry point.
pub fn reference(case: &ParCase) -> Judged {
    judge(enc::encode(&case.cfg(), case.source(), &Mode::St))
}

pub struct ScheduledRun {
    pub report: RunReport,
    pub result: Judged,
}

/// One run of the multi-thread encoder under the deterministic scheduler.
pub fn run_scheduled(case: &ParCase, policy: Policy) -> ScheduledRun {
    let sched = Sched::new();
    CURRENT.set(Some(Arc::clone(&sched)));
    flacenc::verif::install(Some(sched.clone() as Arc<dyn flacenc::verif::Observer>));
    let cfg = case.cfg();
    let src = case.source();
    let workers = case.workers;
    let body = std::thread::spawn(move || {
        flacenc::verif::point("m.begin", 0, 0, None);
        let out = enc::encode(&cfg, src, &Mode::Mt(workers));
        let j = judge(out);
        let code = match j.outcome.as_str() {
            "ok" => 0,
            "err:source" => 1,
            "err:config" => 2,
            _ => 3,
        };
        flacenc::verif::point("m.return", code, 0, None);
        j
    });
    let report = sched.control(policy, 100_000);
    let result = match body.join() {
        Ok(j) => j,
        Err(_) => Judged { outcome: "abandoned".into(), detail: "the call had not returned when the run ended".into(), bytes: None },
    };
    flacenc::verif::install(None);
    CURRENT.set(None);
    // give abandoned threads a moment to unwind before the next run
    ScheduledRun { report, result }
}

pub fn thread_count() -> usize {
    std::fs::read_dir("/proc/self/task").map(|d| d.count()).unwrap_or(0)
}

pub struct FreeRun {
    pub result: Judged,
    pub timed_out: bool,
    pub threads_before: usize,
    pub threads_after: usize,
    pub helper_panics: usize,
    pub wall_ms: u128,
}

/// One free-running (OS-scheduled) run with a watchdog; env: optional FLACENC_WORKERS value.
pub fn run_free(case: &ParCase, env_workers: Option<&str>, use_config_workers: bool, watchdog: Duration) -> FreeRun {
    flacenc::verif::install(None);
    CURRENT.set(None);
    match env_workers {
        Some(v) => std::env::set_var("FLACENC_WORKERS", v),
        None => std::env::remove_var("FLACENC_WORKERS"),
    }
    let before = thread_count();
    let p0 = PANICS.load(std::sync::atomic::Ordering::SeqCst);
    let mut cfg = case.cfg();
    cfg.multithread = true;
    cfg.workers = if use_config_workers { Some(case.workers) } else { None };
    let src = case.source();
    let (tx, rx) = std::sync::mpsc::channel();
    let t0 = Instant::now();
    std::thread::spawn(move || {
        // Mode::St leaves `multithread`/`workers` as given... use the raw path instead
        let out = enc::encode_raw(&cfg, src);
        let _ = tx.send(judge(out));
    });
    let (result, timed_out) = match rx.recv_timeout(watchdog) {
        Ok(j) => (j, false),
        Err(_) => (Judged { outcome: "hang".into(), detail: format!("no result within {watchdog:?}"), bytes: None }, true),
    };
    let wall_ms = t0.elapsed().as_millis();
    // helper threads of a returned call must be gone; allow the OS a moment to reap them
    let mut after = thread_count();
    let deadline = Instant::now() + Duration::from_millis(if timed_out { 0 } else { 6000 });
    while after > before && Instant::now() < deadline {
        std::thread::sleep(Duration::from_millis(10));
        after = thread_count();
    }
    std::env::remove_var("FLACENC_WORKERS");
    let own_panic = if result.outcome == "panic" { 1 } else { 0 };
    FreeRun {
        result,
        timed_out,
        threads_before: before,
        threads_after: after,
        helper_panics: (PANICS.load(std::sync::atomic::Ordering::SeqCst) - p0).saturating_sub(own_panic),
        wall_ms,
    }
}
