//! Very long streams of tiny blocks: every frame number of the 1..4-byte classes of the UTF-8-style
//! code occurs in ONE real stream (and the first 5-byte ones in the thorough tier).  TLC cannot
//! decode megabytes, so the harness hands it a digest (TraceLong.tla):
//!   * the first 42 bytes (marker + STREAMINFO),
//!   * the byte length every frame has when written on its own and the size it reports, run-length
//!     coded over the frame index,
//!   * the bytes and the input block of sampled frames (all class boundaries, the extremes, the
//!     last one, a seeded random sample) which TLC parses completely.

use crate::enc::{self, Mode, Outcome};
use crate::gen::Cfg;
use crate::Args;
use flacenc::bitsink::ByteSink;
use flacenc::component::BitRepr;
use flacenc::error::{SourceError, SourceErrorReason};
use flacenc::source::{Fill, Source};
use rand::Rng;
use serde_json::{json, Value};
use std::collections::BTreeSet;
use std::io::Write;

/// Samples are a pure function of the position, so that no 268 MB vector is needed.
#[derive(Clone)]
pub struct FnSource {
    /// 0: tiny blocks, a few loud / quiet-noise / constant frames among silence; 1: quiet noise with ONE impulse
    /// of 2^22 in the second block (a Rice quotient of 2^16 next to thousands of small ones)
    pub kind: u8,
    pub bs: usize,
    pub n: usize,
    pub pos: usize,
    pub bps: usize,
    pub rate: usize,
    pub seed: u64,
}

fn mix(mut x: u64) -> u64 {
    x ^= x >> 33;
    x = x.wrapping_mul(0xff51afd7ed558ccd);
    x ^= x >> 33;
    x = x.wrapping_mul(0xc4ceb9fe1a85ec53);
    x ^ (x >> 33)
}

impl FnSource {
    pub fn sample(&self, t: usize) -> i32 {
        if self.kind == 1 {
            let h = mix(self.seed ^ (t as u64).wrapping_mul(0x9e3779b97f4a7c15));
            let f = t / self.bs;
            if f == 1 {
                if t == self.bs + self.bs / 3 {
                    return 1 << 22;
                }
                return (h % 1537) as i32 - 768; // quotients 0..12 under parameter 7: they add up to about 1.5 * 2^16
            }
            return (h % 5) as i32 - 2;
        }
        let f = t / self.bs;
        let h = mix(self.seed ^ (t as u64).wrapping_mul(0x9e3779b97f4a7c15));
        let full = 1i64 << (self.bps - 1);
        if f % 65_537 == 3 || f == 0x11_0007 || f == 0x1F_FFFE {
            ((h % (2 * full as u64)) as i64 - full) as i32 // loud: verbatim
        } else if f % 4_099 == 1 {
            (h % 3) as i32 - 1 // quiet noise
        } else if f % 30_011 == 2 {
            5 // another constant
        } else {
            0
        }
    }
    pub fn block(&self, k: usize) -> Vec<i32> {
        (k * self.bs..((k + 1) * self.bs).min(self.n)).map(|t| self.sample(t)).collect()
    }
}

impl Source for FnSource {
    fn channels(&self) -> usize {
        1
    }
    fn bits_per_sample(&self) -> usize {
        self.bps
    }
    fn sample_rate(&self) -> usize {
        self.rate
    }
    fn read_samples<F: Fill>(&mut self, block_size: usize, dest: &mut F) -> Result<usize, SourceError> {
        if block_size != self.bs {
            return Err(SourceError::by_reason(SourceErrorReason::IO(None)));
        }
        let end = (self.pos + block_size).min(self.n);
        let chunk: Vec<i32> = (self.pos..end).map(|t| self.sample(t)).collect();
        dest.fill_interleaved(&chunk)?;
        self.pos = end;
        Ok(chunk.len())
    }
    fn len_hint(&self) -> Option<usize> {
        Some(self.n)
    }
}

fn encode_fn(cfg: &Cfg, src: FnSource, mode: &Mode) -> Outcome {
    let mut cfg = cfg.clone();
    match mode {
        Mode::Mt(w) => {
            cfg.multithread = true;
            cfg.workers = Some(*w);
        }
        _ => cfg.multithread = false,
    }
    let bs = cfg.block_size;
    let r = std::panic::catch_unwind(std::panic::AssertUnwindSafe(|| {
        use flacenc::error::Verify;
        let v = cfg.to_encoder().into_verified().map_err(|(_, e)| flacenc::error::EncodeError::Config(e))?;
        flacenc::encode_with_fixed_block_size(&v, src, bs)
    }));
    match r {
        Ok(Ok(s)) => Outcome::Ok(s),
        Ok(Err(e)) => {
            let (k, m) = enc::err_kind(&e);
            Outcome::Err(k, m)
        }
        Err(p) => Outcome::Panic(enc::panic_message(p)),
    }
}

pub fn cmd_long(a: &Args) {
    let thorough = a.get("tier", "quick") == "thorough";
    let seed = a.num("seed", 1);
    let out = a.get("out", "/verif/.work/long/long.ndjson");
    if let Some(d) = std::path::Path::new(&out).parent() {
        std::fs::create_dir_all(d).unwrap();
    }
    let props: Vec<String> = a.get("props", "C01,C02,C04,C05,C08").split(',').map(str::to_string).collect();
    let mut w = std::io::BufWriter::new(std::fs::File::create(&out).unwrap());
    // (frames, block size, width, last block length, kind)
    let cases: Vec<(usize, usize, usize, usize, u8)> = if thorough {
        vec![(0x20_0000 + 40, 32, 8, 7, 0), (0x11_0000 + 9, 33, 16, 33, 0), (70_000, 32, 12, 1, 0), (3, 16384, 24, 50, 1), (4, 12288, 24, 12288, 1)]
    } else {
        vec![(a.num("frames", 0x11_0000 + 37) as usize, 32, 8, 19, 0), (3, 16384, 24, 50, 1)]
    };
    let mut summary = vec![];
    let mut classes = BTreeSet::new();
    for (ci, &(frames, bs, bps, last, kind)) in cases.iter().enumerate() {
        let n = (frames - 1) * bs + last;
        let src = FnSource { kind, bs, n, pos: 0, bps, rate: 44100, seed: seed * 1000 + ci as u64 };
        let cfg = if kind == 1 {
            Cfg { block_size: bs, max_parameter: 7, use_lpc: false, fixed_max_order: 1, partitions: None, ..Cfg::default() }
        } else {
            Cfg { block_size: bs, ..Cfg::default() }
        };
        let id = format!("long-{seed}-{ci}");
        let st = encode_fn(&cfg, src.clone(), &Mode::St);
        let stream = match st {
            Outcome::Ok(s) => s,
            Outcome::Err(k, m) => {
                serde_json::to_writer(&mut w, &json!({"ev": "long", "id": id, "outcome": format!("error {k}: {m}"), "props": props})).unwrap();
                w.write_all(b"\n").unwrap();
                continue;
            }
            Outcome::Panic(m) => {
                serde_json::to_writer(&mut w, &json!({"ev": "long", "id": id, "outcome": format!("panic: {m}"), "props": props})).unwrap();
                w.write_all(b"\n").unwrap();
                continue;
            }
        };
        let bytes = enc::stream_bytes(&stream).unwrap_or_default();
        let mt = encode_fn(&cfg, src.clone(), &Mode::Mt(4));
        let modes_equal = match mt {
            Outcome::Ok(s2) => enc::stream_bytes(&s2).map_or(false, |b2| b2 == bytes),
            _ => false,
        };
        // per-frame written length and reported size, run-length coded
        let nf = stream.frame_count();
        let mut rle: Vec<Value> = vec![];
        let mut cur: Option<(usize, usize, usize, usize)> = None; // first, count, len, cb
        let mut lens: Vec<u32> = Vec::with_capacity(nf);
        let mut sink = ByteSink::new();
        let mut sum = 0usize;
        let mut write_failed = 0usize;
        for k in 0..nf {
            let f = stream.frame(k).unwrap();
            sink.clear();
            if f.write(&mut sink).is_err() {
                write_failed += 1;
            }
            let len = sink.as_slice().len();
            let cb = f.count_bits();
            lens.push(len as u32);
            sum += len;
            match &mut cur {
                Some((_, count, l, c)) if *l == len && *c == cb => *count += 1,
                _ => {
                    if let Some((first, count, l, c)) = cur {
                        rle.push(json!({"first": first, "count": count, "len": l, "cb": c}));
                    }
                    cur = Some((k, 1, len, cb));
                }
            }
        }
        if let Some((first, count, l, c)) = cur {
            rle.push(json!({"first": first, "count": count, "len": l, "cb": c}));
        }
        // sampled frames
        let mut pick: BTreeSet<usize> = BTreeSet::new();
        for b in [0usize, 1, 2, 3, 127, 128, 2047, 2048, 65535, 65536, 65540, 0x10_FFFF, 0x11_0000, 0x11_0007, 0x1F_FFFE, 0x1F_FFFF, 0x20_0000, 0x20_0001] {
            if b < nf {
                pick.insert(b);
            }
        }
        if nf > 0 {
            pick.insert(nf - 1);
            if nf > 1 {
                pick.insert(nf - 2);
            }
            let imax = (0..nf).max_by_key(|&i| lens[i]).unwrap();
            let imin = (0..nf).min_by_key(|&i| lens[i]).unwrap();
            pick.insert(imax);
            pick.insert(imin);
            // the last frames that reach the extremes as well
            pick.insert((0..nf).rev().max_by_key(|&i| lens[i]).unwrap());
            pick.insert((0..nf).rev().min_by_key(|&i| lens[i]).unwrap());
        }
        let mut rng = crate::gen::rng_for(seed, 91000 + ci as u64);
        for _ in 0..(if thorough { 300 } else { 80 }) {
            if nf > 0 {
                // log-uniform over the index so that every code length class is sampled
                let bits = rng.gen_range(0..=(usize::BITS - nf.leading_zeros()));
                let v = rng.gen_range(0..(1usize << bits).max(1)).min(nf - 1);
                pick.insert(v);
            }
        }
        // frames of more than 4 KiB are not handed to TLC (minutes per frame): their length is pinned down by the
        // frames after them, which must parse with valid CRCs at the offsets the lengths add up to
        pick.retain(|&k| lens[k] <= 4096);
        // byte offset of each picked frame inside the stream
        let mut offs = vec![];
        {
            let mut at = bytes.len() - sum.min(bytes.len());
            let mut it = pick.iter().peekable();
            for k in 0..nf {
                if it.peek() == Some(&&k) {
                    offs.push((k, at));
                    it.next();
                }
                at += lens[k] as usize;
            }
        }
        serde_json::to_writer(
            &mut w,
            &json!({"ev": "long", "id": id, "outcome": "ok", "props": props, "bs": bs, "bps": bps, "ch": 1, "rate": 44100,
                    "n_hi": n >> 24, "n_lo": n & 0xFF_FFFF, "frames": frames, "last": last, "nframes": nf,
                    "head": bytes.iter().take(42).collect::<Vec<_>>(), "nbytes_hi": bytes.len() >> 24, "nbytes_lo": bytes.len() & 0xFF_FFFF,
                    "sum_hi": (sum + 42) >> 24, "sum_lo": (sum + 42) & 0xFF_FFFF,
                    "count_hi": (stream.count_bits() / 8) >> 24, "count_lo": (stream.count_bits() / 8) & 0xFF_FFFF, "count_rem": stream.count_bits() % 8,
                    "write_failed": write_failed, "modes_equal": modes_equal, "rle": rle, "nsampled": offs.len()}),
        )
        .unwrap();
        w.write_all(b"\n").unwrap();
        for (k, at) in &offs {
            let len = lens[*k] as usize;
            let in_stream = bytes.get(*at..*at + len).map(<[u8]>::to_vec).unwrap_or_default();
            sink.clear();
            let _ = stream.frame(*k).unwrap().write(&mut sink);
            serde_json::to_writer(
                &mut w,
                &json!({"ev": "lf", "k": k, "len": len, "bytes": in_stream, "same_alone": in_stream == sink.as_slice(),
                        "x": [src.block(*k)], "cb": stream.frame(*k).unwrap().count_bits()}),
            )
            .unwrap();
            w.write_all(b"\n").unwrap();
        }
        serde_json::to_writer(&mut w, &json!({"ev": "lend", "id": id})).unwrap();
        w.write_all(b"\n").unwrap();
        classes.insert(format!("{frames}/{bs}/{bps}"));
        summary.push(json!({"id": id, "frames": nf, "bytes": bytes.len(), "runs": rle.len(), "sampled": offs.len(), "modes_equal": modes_equal}));
    }
    w.flush().unwrap();
    println!("{}", json!({"cases": summary.len(), "classes": classes.len(), "samples": summary, "files": [out]}));
}
