//! Deterministic scheduler for the multi-thread encoder, driven by the observation points
//! in /repo/src/par.rs (cfg flacenc_verif).
//!
//! Every thread parks at every point.  The controller waits until nobody runs, asks every
//! parked thread to evaluate its readiness probe, picks exactly one *runnable* thread
//! according to a policy and lets it run to its next point.  Only one thread runs between
//! points, so the recorded order is a linearisation; deadlock, leaked threads and panics
//! are detected structurally.

use flacenc::verif::Observer;
use rand::rngs::StdRng;
use rand::Rng;
use rand::SeedableRng;
use serde::Serialize;
use std::collections::HashMap;
use std::sync::{Arc, Condvar, Mutex};
use std::thread::ThreadId;
use std::time::{Duration, Instant};

#[derive(Clone, Copy, PartialEq, Debug)]
enum Status {
    Parked,
    Running,
    Exited,
}

struct Th {
    role: String,
    site: &'static str,
    a: i64,
    b: i64,
    has_probe: bool,
    ready: bool,
    epoch_seen: u64,
    status: Status,
    panicked: bool,
}

struct St {
    th: Vec<Th>,
    by_tid: HashMap<ThreadId, usize>,
    epoch: u64,
    grant: Option<usize>,
    expected: usize,
    abandon: bool,
    /// sites reached, in order, with the arguments reported by the code
    log: Vec<Event>,
}

pub struct Sched {
    st: Mutex<St>,
    cv: Condvar,
}

/// Payload used to unwind threads that are abandoned after the run has been judged.
pub struct Abandoned;

#[derive(Serialize, Clone, Debug)]
pub struct Event {
    pub t: String,
    pub site: String,
    pub a: i64,
    pub b: i64,
    /// roles that were runnable when this one was chosen
    pub en: Vec<String>,
    /// where every live thread is parked when this one was chosen (role -> site)
    pub at: Vec<(String, String)>,
}

#[derive(Serialize, Clone, Debug, Default)]
pub struct RunReport {
    pub events: Vec<Event>,
    /// threads still parked (blocked for ever) when no thread could run any more
    pub blocked_at_end: Vec<(String, String)>,
    /// the call had returned (m.return granted) before the run ended
    pub returned: bool,
    /// threads still alive (parked or runnable) at the moment the call returned
    pub alive_at_return: Vec<(String, String)>,
    pub panicked: Vec<String>,
    pub deadlock: bool,
    pub hang: Option<String>,
    pub divergence: Option<String>,
    pub steps: usize,
}

pub enum Policy {
    /// follow a list of roles (a behaviour of ParEncoder.tla); afterwards first-enabled
    Follow(Vec<String>),
    Random(StdRng),
    /// PCT-style: random priorities with `d` priority change points among `k` expected steps
    Pct { rng: StdRng, prio: HashMap<String, i64>, change_at: Vec<usize>, low: i64 },
    /// random among the runnable threads other than `role`; `role` runs only when nothing else can
    /// (with role = "h" the 16-slot process queue fills up and the feeder has to wait for the hasher)
    Starve { role: String, rng: StdRng },
}

impl Policy {
    pub fn random(seed: u64) -> Policy {
        Policy::Random(StdRng::seed_from_u64(seed))
    }
    pub fn starve(role: &str, seed: u64) -> Policy {
        Policy::Starve { role: role.to_string(), rng: StdRng::seed_from_u64(seed) }
    }
    pub fn pct(seed: u64, d: usize, k: usize) -> Policy {
        let mut rng = StdRng::seed_from_u64(seed);
        let change_at = (0..d).map(|_| rng.gen_range(0..k.max(1))).collect();
        Policy::Pct { rng, prio: HashMap::new(), change_at, low: 0 }
    }
}

const EXIT_SITES: [&str; 3] = ["w.exit", "h.exit", "m.return"];

impl Sched {
    pub fn new() -> Arc<Sched> {
        Arc::new(Sched {
            st: Mutex::new(St {
                th: vec![],
                by_tid: HashMap::new(),
                epoch: 0,
                grant: None,
                expected: 1,
                abandon: false,
                log: vec![],
            }),
            cv: Condvar::new(),
        })
    }

    /// To be called from the panic hook.
    pub fn note_panic(&self) {
        let tid = std::thread::current().id();
        let mut st = self.st.lock().unwrap_or_else(|e| e.into_inner());
        if let Some(&i) = st.by_tid.get(&tid) {
            st.th[i].panicked = true;
            st.th[i].status = Status::Exited;
            self.cv.notify_all();
        }
    }

    fn wait_quiescent(&self, budget: Duration) -> Result<std::sync::MutexGuard<'_, St>, String> {
        let deadline = Instant::now() + budget;
        let mut st = self.st.lock().unwrap_or_else(|e| e.into_inner());
        loop {
            let running: Vec<String> = st
                .th
                .iter()
                .filter(|t| t.status == Status::Running)
                .map(|t| format!("{}@{}", t.role, t.site))
                .collect();
            let live_registered = st.th.len();
            if running.is_empty() && live_registered >= st.expected && st.grant.is_none() {
                return Ok(st);
            }
            let now = Instant::now();
            if now >= deadline {
                return Err(format!(
                    "no progress for {:?}: running={:?} registered={} expected={}",
                    budget, running, live_registered, st.expected
                ));
            }
            let (g, _) = self
                .cv
                .wait_timeout(st, deadline - now)
                .unwrap_or_else(|e| e.into_inner());
            st = g;
        }
    }

    /// Runs the schedule until no thread can run.  The body must have been started on its
    /// own thread (role "m") by the caller.
    pub fn control(&self, mut policy: Policy, max_steps: usize) -> RunReport {
        let mut rep = RunReport::default();
        let budget = Duration::from_secs(20);
        let mut follow_pos = 0usize;
        loop {
            let mut st = match self.wait_quiescent(budget) {
                Ok(st) => st,
                Err(e) => {
                    rep.hang = Some(e);
                    break;
                }
            };
            // ask every parked thread with a probe to evaluate it
            st.epoch += 1;
            let epoch = st.epoch;
            self.cv.notify_all();
            let deadline = Instant::now() + budget;
            loop {
                let pending = st
                    .th
                    .iter()
                    .any(|t| t.status == Status::Parked && t.has_probe && t.epoch_seen != epoch);
                if !pending {
                    break;
                }
                let now = Instant::now();
                if now >= deadline {
                    rep.hang = Some("a readiness probe did not return".into());
                    break;
                }
                let (g, _) = self.cv.wait_timeout(st, deadline - now).unwrap_or_else(|e| e.into_inner());
                st = g;
            }
            if rep.hang.is_some() {
                break;
            }
            // Joins are decided structurally: the target has passed its exit point (or panicked).
            // `JoinHandle::is_finished` lags behind that by the thread's teardown, so the probe
            // itself would make the runnable set depend on timing.
            let joins_done = rep.events.iter().filter(|e| e.site == "m.join").count();
            let exited = |st: &St, role: &str| st.th.iter().any(|t| t.role == role && t.status == Status::Exited);
            let enabled: Vec<usize> = (0..st.th.len())
                .filter(|&i| {
                    let t = &st.th[i];
                    if t.status != Status::Parked {
                        return false;
                    }
                    match t.site {
                        "m.join" => exited(&st, &format!("w{joins_done}")),
                        "m.hjoin" => exited(&st, "h"),
                        _ => !t.has_probe || t.ready,
                    }
                })
                .collect();
            let parked: Vec<(String, String)> = st
                .th
                .iter()
                .filter(|t| t.status == Status::Parked)
                .map(|t| (t.role.clone(), t.site.to_string()))
                .collect();
            if enabled.is_empty() {
                rep.blocked_at_end = parked;
                rep.deadlock = !rep.returned;
                break;
            }
            if rep.steps >= max_steps {
                rep.hang = Some(format!("more than {max_steps} steps"));
                break;
            }
            let en_roles: Vec<String> = enabled.iter().map(|&i| st.th[i].role.clone()).collect();
            let pick = match &mut policy {
                Policy::Follow(seq) => {
                    if follow_pos < seq.len() {
                        let want = &seq[follow_pos];
                        follow_pos += 1;
                        match enabled.iter().find(|&&i| &st.th[i].role == want) {
                            Some(&i) => i,
                            None => {
                                rep.divergence = Some(format!(
                                    "step {}: the model schedules {want} but the runnable threads are {:?} (parked: {:?})",
                                    rep.steps, en_roles, parked
                                ));
                                break;
                            }
                        }
                    } else {
                        enabled[0]
                    }
                }
                Policy::Random(rng) => enabled[rng.gen_range(0..enabled.len())],
                Policy::Starve { role, rng } => {
                    let others: Vec<usize> = enabled.iter().copied().filter(|&i| &st.th[i].role != role).collect();
                    if others.is_empty() {
                        enabled[0]
                    } else {
                        others[rng.gen_range(0..others.len())]
                    }
                }
                Policy::Pct { rng, prio, change_at, low } => {
                    for &i in &enabled {
                        let r = st.th[i].role.clone();
                        prio.entry(r).or_insert_with(|| rng.gen_range(1000..1_000_000));
                    }
                    let best = *enabled.iter().max_by_key(|&&i| prio[&st.th[i].role]).unwrap();
                    if change_at.contains(&rep.steps) {
                        *low -= 1;
                        prio.insert(st.th[best].role.clone(), *low);
                    }
                    best
                }
            };
            let ev = Event {
                t: st.th[pick].role.clone(),
                site: st.th[pick].site.to_string(),
                a: st.th[pick].a,
                b: st.th[pick].b,
                en: en_roles,
                at: parked.clone(),
            };
            if ev.site == "m.spawn" {
                st.expected += 1;
            }
            if ev.site == "m.return" {
                rep.returned = true;
                rep.alive_at_return = parked.into_iter().filter(|(r, _)| r != "m").collect();
            }
            rep.events.push(ev);
            rep.steps += 1;
            st.th[pick].status = Status::Running;
            st.grant = Some(pick);
            self.cv.notify_all();
        }
        // judgement done: unwind whatever is still parked
        let mut st = self.st.lock().unwrap_or_else(|e| e.into_inner());
        rep.panicked = st.th.iter().filter(|t| t.panicked).map(|t| t.role.clone()).collect();
        st.abandon = true;
        self.cv.notify_all();
        drop(st);
        rep
    }

    pub fn take_log(&self) -> Vec<Event> {
        std::mem::take(&mut self.st.lock().unwrap_or_else(|e| e.into_inner()).log)
    }
}

impl Observer for Sched {
    fn at(&self, site: &'static str, a: i64, b: i64, ready: Option<&dyn Fn() -> bool>) {
        let tid = std::thread::current().id();
        let mut st = self.st.lock().unwrap_or_else(|e| e.into_inner());
        if st.abandon {
            drop(st);
            std::panic::resume_unwind(Box::new(Abandoned));
        }
        let me = match st.by_tid.get(&tid) {
            Some(&i) => i,
            None => {
                let role = if site == "w.start" {
                    format!("w{a}")
                } else if site.starts_with("h.") {
                    "h".to_string()
                } else {
                    "m".to_string()
                };
                st.th.push(Th {
                    role,
                    site,
                    a,
                    b,
                    has_probe: false,
                    ready: false,
                    epoch_seen: 0,
                    status: Status::Parked,
                    panicked: false,
                });
                let i = st.th.len() - 1;
                st.by_tid.insert(tid, i);
                i
            }
        };
        {
            let t = &mut st.th[me];
            t.site = site;
            t.a = a;
            t.b = b;
            t.has_probe = ready.is_some();
            t.ready = false;
            t.epoch_seen = 0;
            t.status = Status::Parked;
        }
        self.cv.notify_all();
        loop {
            if st.abandon {
                drop(st);
                std::panic::resume_unwind(Box::new(Abandoned));
            }
            if st.grant == Some(me) {
                st.grant = None;
                st.th[me].status = if EXIT_SITES.contains(&site) { Status::Exited } else { Status::Running };
                self.cv.notify_all();
                return;
            }
            if let Some(probe) = ready {
                if st.th[me].epoch_seen != st.epoch && st.epoch > 0 {
                    let e = st.epoch;
                    drop(st);
                    let r = probe();
                    st = self.st.lock().unwrap_or_else(|e| e.into_inner());
                    st.th[me].ready = r;
                    st.th[me].epoch_seen = e;
                    self.cv.notify_all();
                    continue;
                }
            }
            st = self.cv.wait(st).unwrap_or_else(|e| e.into_inner());
        }
    }
}
