\* exhaustive check of the repaired protocol over every fault scenario in small scope
SPECIFICATION Spec
CONSTANTS
  Ws = {2}
  Ns = {3}
  M = 2
  PQCAP = 2
  FailAts = {0, 1, 2, 3, 99}
  BadSets = {{}, {0}, {1}, {2}, {0, 2}, {1, 2}}
  EofFills = {TRUE, FALSE}
  Variant = "repaired"
INVARIANTS TypeOK BufferInOnePlace NoDuplicatesInQueues LockDiscipline FrameNumbering SinkComplete HashedInOrder NoLeak NoPanic SameKindAsSequential
PROPERTIES Termination AllThreadsEnd
CHECK_DEADLOCK FALSE
