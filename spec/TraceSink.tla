----------------------------- MODULE TraceSink -----------------------------
(***************************************************************************)
(* Trace validation of the in-memory sinks (MemSink<u8>, MemSink<u64>) and *)
(* of a user-defined sink against the ideal bit string of BitSink.tla      *)
(* (C11).  Events: `reset` (new empty sink of kind u8/u64/user), `op`      *)
(* (operation, operand, what the sink reports afterwards: length, storage  *)
(* bytes, returned padding count, or that it panicked), `expect` (for the  *)
(* user sink: the bytes the byte sink produced for the same component).    *)
(***************************************************************************)
EXTENDS Naturals, Sequences, SequencesExt, FiniteSetsExt, TLC, Json, IOUtils, BitSink

Rec == ndJsonDeserialize(IOEnv.TRACE)

VARIABLES l, bits, kind, id, bad
vars == << l, bits, kind, id, bad >>

Ev == Rec[l]
WordOf(k) == IF k = "u64" THEN 64 ELSE 8

Init == l = 1 /\ bits = <<>> /\ kind = "none" /\ id = "" /\ bad = {}

Flush == IF id = "" THEN TRUE
         ELSE PrintT("VERDICT|" \o id \o (IF bad = {} THEN "|pass|" ELSE "|FAIL|")
                     \o FoldSet(LAMBDA x, a : a \o x \o " ;; ", "", bad))

Reset ==
  /\ l <= Len(Rec) /\ Ev.ev = "reset"
  /\ Flush
  /\ l' = l + 1 /\ bits' = <<>> /\ kind' = Ev.sink /\ id' = Ev.id /\ bad' = {}

Op ==
  /\ l <= Len(Rec) /\ Ev.ev = "op"
  /\ l' = l + 1 /\ UNCHANGED << kind, id >>
  /\ \E r \in {Apply(bits, Ev.op, Ev.v, Ev.n)} :
       /\ bits' = r.bits
       \* only the first deviation of a sequence is reported: everything after it is a consequence
       /\ bad' = IF bad # {} THEN bad ELSE
            (IF Ev.panic THEN {"C11: " \o Ev.op \o " n=" \o ToString(Ev.n) \o " at offset " \o ToString(Len(bits)) \o " panicked"}
             ELSE
             (IF Ev.len # Len(r.bits)
                THEN {"C11: after " \o Ev.op \o " n=" \o ToString(Ev.n) \o " at offset " \o ToString(Len(bits))
                      \o " the sink reports length " \o ToString(Ev.len) \o ", ideal " \o ToString(Len(r.bits))} ELSE {}) \cup
             (IF kind # "user" /\ Ev.store # Export(r.bits, WordOf(kind))
                THEN {"C11: after " \o Ev.op \o " (operand " \o ToString(8 * Len(Ev.v)) \o " bit) n=" \o ToString(Ev.n) \o " at offset "
                      \o ToString(Len(bits)) \o " the storage differs from the ideal bit string (or tail bits are not zero)"} ELSE {}) \cup
             (IF ~Ev.observers
                THEN {"C11: to_bitstring / write_to_byte_slice disagree with len and as_slice after " \o Ev.op
                      \o " n=" \o ToString(Ev.n) \o " at offset " \o ToString(Len(bits))} ELSE {}) \cup
             (IF r.ret >= 0 /\ Ev.ret # r.ret
                THEN {"C11: " \o Ev.op \o " returned " \o ToString(Ev.ret) \o " padding bits, ideal " \o ToString(r.ret)} ELSE {}))

Expect ==
  /\ l <= Len(Rec) /\ Ev.ev = "expect"
  /\ l' = l + 1 /\ UNCHANGED << bits, kind, id >>
  /\ bad' = bad \cup
       (IF Ev.bytes # Export(bits, 8) \/ Ev.nbits # Len(bits)
          THEN {"C11: the user-defined sink received a different bit sequence than the byte sink for " \o Ev.what} ELSE {})

Fin ==
  /\ l <= Len(Rec) /\ Ev.ev = "fin"
  /\ Flush
  /\ l' = l + 1 /\ UNCHANGED << bits, kind >> /\ id' = "" /\ bad' = {}

Next == Reset \/ Op \/ Expect \/ Fin
Spec == Init /\ [][Next]_vars

Consumed == \/ TLCGet("stats").diameter = Len(Rec) + 1
            \/ (PrintT(<<"UNCONSUMED", TLCGet("stats").diameter, Len(Rec)>>) /\ FALSE)
=============================================================================
