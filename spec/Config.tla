------------------------------- MODULE Config -------------------------------
(***************************************************************************)
(* The encoder configuration (17 fields over five nested sections), the    *)
(* documented validity predicate (property C07) and the meaning of a TOML  *)
(* document that omits fields (property C19).                              *)
(*                                                                         *)
(* A configuration is a record.  Integer fields hold naturals; Huge stands *)
(* for usize::MAX.  The window is "rect" or a Tukey alpha *class* (floats  *)
(* do not exist in TLA+): "neg" (-1e-6), "zero", "dflt" (0.4), "one",      *)
(* "above" (1+1e-6), "tiny" (1e-6), "nan", "inf", "ninf".  The order       *)
(* selector is partitions = BitCount (a sentinel) or a partition count.    *)
(***************************************************************************)
EXTENDS Naturals, Integers, Sequences, FiniteSets, TLC

Huge == 2147483647
BitCount == 0 - 1          \* order_sel = BitCount; any other value: ApproxEnt{partitions}
NoWorkers == 0             \* workers = None

Fields == {"block_size", "multithread", "workers", "use_leftside", "use_rightside", "use_midside",
           "use_constant", "use_fixed", "use_lpc", "fixed_max_order", "partitions", "lpc_order",
           "quant_precision", "use_direct_mse", "mae_steps", "alpha", "max_parameter"}

Default(par) ==
  [block_size |-> 4096, multithread |-> par, workers |-> NoWorkers,
   use_leftside |-> TRUE, use_rightside |-> TRUE, use_midside |-> TRUE,
   use_constant |-> TRUE, use_fixed |-> TRUE, use_lpc |-> TRUE,
   fixed_max_order |-> 4, partitions |-> 16, lpc_order |-> 10, quant_precision |-> 15,
   use_direct_mse |-> FALSE, mae_steps |-> 0, alpha |-> "dflt", max_parameter |-> 14]

AlphaInRange(a) == a \in {"rect", "zero", "tiny", "dflt", "one", "third", "sqrth", "below1", "minpos"}

\* C07: every field at every nesting level lies in its documented range
Valid(c, experimental) ==
  /\ c.block_size >= 32 /\ c.block_size <= 32767
  /\ c.fixed_max_order <= 4
  /\ (c.partitions = BitCount \/ (c.partitions >= 1 /\ c.partitions <= 64))
  /\ c.lpc_order >= 1 /\ c.lpc_order <= 24
  /\ c.quant_precision >= 1 /\ c.quant_precision <= 15
  /\ c.max_parameter <= 14
  /\ AlphaInRange(c.alpha)
  /\ (experimental \/ (~c.use_direct_mse /\ c.mae_steps = 0))

\* which clause rejects (for diagnostics)
Rejects(c, experimental) ==
  (IF ~(c.block_size >= 32 /\ c.block_size <= 32767) THEN {"block_size"} ELSE {}) \cup
  (IF ~(c.fixed_max_order <= 4) THEN {"fixed.max_order"} ELSE {}) \cup
  (IF ~(c.partitions = BitCount \/ (c.partitions >= 1 /\ c.partitions <= 64)) THEN {"fixed.order_sel.partitions"} ELSE {}) \cup
  (IF ~(c.lpc_order >= 1 /\ c.lpc_order <= 24) THEN {"qlpc.lpc_order"} ELSE {}) \cup
  (IF ~(c.quant_precision >= 1 /\ c.quant_precision <= 15) THEN {"qlpc.quant_precision"} ELSE {}) \cup
  (IF ~(c.max_parameter <= 14) THEN {"prc.max_parameter"} ELSE {}) \cup
  (IF ~AlphaInRange(c.alpha) THEN {"qlpc.window.alpha"} ELSE {}) \cup
  (IF ~(experimental \/ (~c.use_direct_mse /\ c.mae_steps = 0)) THEN {"experimental options"} ELSE {})

\* boundary values per field: min-1, min, max, max+1, extreme (plus the default); for the block size also the
\* values the frame header codes specially (192, 576 * 2^k, 256 * 2^k) and their continuation beyond the table
Boundary ==
  [block_size |-> {0, 31, 32, 33, 192, 576, 4096, 4608, 9216, 16384, 18432, 32767, 32768, Huge},
   multithread |-> {TRUE, FALSE},
   workers |-> {NoWorkers, 1, 3},
   use_leftside |-> {TRUE, FALSE}, use_rightside |-> {TRUE, FALSE}, use_midside |-> {TRUE, FALSE},
   use_constant |-> {TRUE, FALSE}, use_fixed |-> {TRUE, FALSE}, use_lpc |-> {TRUE, FALSE},
   fixed_max_order |-> {0, 3, 4, 5, 9, Huge},
   partitions |-> {BitCount, 0, 1, 16, 64, 65, Huge},
   lpc_order |-> {0, 1, 10, 24, 25, 33, Huge},
   quant_precision |-> {0, 1, 3, 15, 16, Huge},
   use_direct_mse |-> {FALSE, TRUE},
   mae_steps |-> {0, 1, 3},
   \* "third" 1/3, "sqrth" 0.70710677, "below1" 1 - 2^-24, "minpos" the smallest normal f32 (all need full float
   \* precision to survive text), "aboveeps" 1 + 2^-23 and "negtiny" -1e-7 (the invalid values nearest to the range)
   alpha |-> {"rect", "neg", "zero", "tiny", "dflt", "one", "above", "nan", "inf", "ninf",
              "third", "sqrth", "below1", "minpos", "aboveeps", "negtiny"},
   max_parameter |-> {0, 1, 14, 15, 16, Huge}]

\* all configurations in which at most two fields differ from the default
Singles(d) == UNION { { [d EXCEPT ![f] = v] : v \in Boundary[f] } : f \in Fields }
Vectors(par) == UNION { Singles(s) : s \in Singles(Default(par)) }

---------------------------------------------------------------------------
(* C19: a TOML document is the set of fields it states (with values); the   *)
(* parse of a document is the default overridden by what it states.  The    *)
(* tagged variants: `partitions` can be omitted while the ApproxEnt tag is  *)
(* present (then 16); a Tukey window without alpha is not a document        *)
(* (alpha has no documented default), so `alpha` is only ever omitted       *)
(* together with its whole table.                                           *)
Parse(present, c, par) == [f \in Fields |-> IF f \in present THEN c[f] ELSE Default(par)[f]]
=============================================================================
