----------------------------- MODULE TraceFault -----------------------------
(***************************************************************************)
(* C12: a user sink that fails on its k-th operation.                      *)
(*                                                                         *)
(* Model (FaultySink): writing a component to a sink that accepts only k   *)
(* operations either completes (k >= number of operations of the write) or *)
(* returns the sink's error, and what the sink accepted is a prefix of the *)
(* fault-free bit string:                                                  *)
(*     Outcome(k) = IF k >= NOps THEN Ok /\ accepted = Full                *)
(*                  ELSE Err(sink) /\ IsPrefix(accepted, Full)             *)
(* The harness enumerates every k for every component (`comp` event: the   *)
(* fault-free bit string and NOps; `try` events: k, outcome, accepted).    *)
(***************************************************************************)
EXTENDS Naturals, Sequences, SequencesExt, FiniteSetsExt, TLC, Json, IOUtils, BitSink

Rec == ndJsonDeserialize(IOEnv.TRACE)

VARIABLES l, c, bad, tries
vars == << l, c, bad, tries >>
Ev == Rec[l]
Comp == Rec[c]

Init == l = 1 /\ c = 0 /\ bad = {} /\ tries = 0

Flush == IF c = 0 THEN TRUE
         ELSE PrintT("VERDICT|" \o Comp.id \o (IF bad = {} THEN "|pass|" ELSE "|FAIL|")
                     \o FoldSet(LAMBDA x, a : a \o x \o " ;; ", "", bad))

\* accepted (nb bits, bytes ab) is a prefix of the full bit string (nf bits, bytes fb)
BitPrefix(nb, ab, nf, fb) ==
  /\ nb <= nf
  /\ Len(ab) = (nb + 7) \div 8
  /\ \A i \in 1..(nb \div 8) : ab[i] = fb[i]
  /\ (nb % 8 # 0) => (ab[(nb \div 8) + 1] = (fb[(nb \div 8) + 1] \div 2^(8 - (nb % 8))) * 2^(8 - (nb % 8)))

NewComp ==
  /\ l <= Len(Rec) /\ Ev.ev = "comp"
  /\ Flush
  /\ l' = l + 1 /\ c' = l /\ bad' = {} /\ tries' = 0

Try ==
  /\ l <= Len(Rec) /\ Ev.ev = "try" /\ c > 0
  /\ l' = l + 1 /\ c' = c /\ tries' = tries + 1
  /\ bad' = bad \cup
       (IF Ev.k >= Comp.nops
        THEN (IF Ev.outcome # "ok" \/ Ev.nbits # Comp.nbits \/ Ev.bytes # Comp.bytes
                THEN {"C12: sink accepting " \o ToString(Ev.k) \o " >= " \o ToString(Comp.nops) \o " operations: outcome "
                      \o Ev.outcome \o " instead of a complete write of " \o Comp.what} ELSE {})
        ELSE (IF Ev.outcome # "err:sink"
                THEN {"C12: sink failing at operation " \o ToString(Ev.k) \o " of " \o ToString(Comp.nops) \o " while writing "
                      \o Comp.what \o ": outcome " \o Ev.outcome \o " instead of the sink's error"} ELSE {}) \cup
             (IF Ev.outcome # "panic" /\ ~BitPrefix(Ev.nbits, Ev.bytes, Comp.nbits, Comp.bytes)
                THEN {"C12: bits accepted before the failure at operation " \o ToString(Ev.k) \o " are not a prefix of the bit string of "
                      \o Comp.what} ELSE {}))

Fin ==
  /\ l <= Len(Rec) /\ Ev.ev = "fin"
  /\ Flush
  /\ l' = l + 1 /\ c' = 0 /\ bad' = {} /\ tries' = 0

Next == NewComp \/ Try \/ Fin
Spec == Init /\ [][Next]_vars
Consumed == \/ TLCGet("stats").diameter = Len(Rec) + 1
            \/ (PrintT(<<"UNCONSUMED", TLCGet("stats").diameter, Len(Rec)>>) /\ FALSE)
=============================================================================
