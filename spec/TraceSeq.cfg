SPECIFICATION Spec
CONSTANTS
  BSC = 32
POSTCONDITION Consumed
CHECK_DEADLOCK FALSE
