------------------------------- MODULE Schemes -------------------------------
(***************************************************************************)
(* The reversible building blocks of the encoder, transcribed the way the  *)
(* code computes them, each checked against its inverse in FlacFormat      *)
(* exhaustively in small scope (the design-level half of C01/C02/C08):     *)
(*  - sign folding (rice.rs encode_signbit) and quotient/remainder split   *)
(*  - mid/side, left/side, right/side transforms (coding.rs)               *)
(*  - fixed predictors by repeated differencing, orders 0..4 (coding.rs)   *)
(*  - quantised LPC residual with an arithmetic right shift (lpc.rs)       *)
(*  - block-size code selection for ALL sizes 1..65535 (datatype.rs)       *)
(*  - sample-rate code selection for ALL rates 0..655350 (datatype.rs)     *)
(*  - UTF-8-style number coding and its length formula (bitrepr.rs)        *)
(* TLC evaluates the lemmas as ASSUMEs; a behaviour spec with one trivial  *)
(* state lets the same module be run under a .cfg.                         *)
(***************************************************************************)
EXTENDS Naturals, Integers, Sequences, SequencesExt, FiniteSets, TLC, Bits, FlacFormat

---------------------------------------------------------------------------
(* sign folding: (|v| << 1) - (v < 0)  and  (u >> p, u & (2^p - 1))       *)
Abs(v) == IF v < 0 THEN -v ELSE v
EncodeSignbit(v) == 2 * Abs(v) - (IF v < 0 THEN 1 ELSE 0)
QuotRem(v, p) == << EncodeSignbit(v) \div 2^p, EncodeSignbit(v) % 2^p >>

FoldLemma == \A v \in -1024..1024 : Unfold(EncodeSignbit(v)) = v /\ EncodeSignbit(v) = Fold(v)
SplitLemma == \A v \in -300..300 : \A p \in 0..14 :
                 LET qr == QuotRem(v, p) IN Unfold(qr[1] * 2^p + qr[2]) = v /\ qr[2] < 2^p

---------------------------------------------------------------------------
(* stereo: the encoder stores ((l + r) >> 1, l - r); >> is an arithmetic   *)
(* shift = floor division                                                  *)
MidSide(l, r) == << (l + r) \div 2, l - r >>
UnMidSide(m, s) == LET m2 == 2 * m + (s % 2) IN << (m2 + s) \div 2, (m2 - s) \div 2 >>
StereoLemma ==
  \A l \in -33..32 : \A r \in -33..32 :
     /\ UnMidSide(MidSide(l, r)[1], MidSide(l, r)[2]) = <<l, r>>
     /\ l - (l - r) = r                 \* left/side
     /\ r + (l - r) = l                 \* right/side
\* the side channel needs one more bit than the inputs, mid does not
WidthLemma ==
  \A l \in -8..7 : \A r \in -8..7 :
     MidSide(l, r)[1] \in -8..7 /\ MidSide(l, r)[2] \in -16..15

---------------------------------------------------------------------------
(* fixed predictors: order k residual = k-fold first difference (carry-in 0 for t < k,
   those positions are warm-up and not coded) *)
Diff(x) == [t \in 1..Len(x) |-> IF t = 1 THEN x[1] ELSE x[t] - x[t - 1]]
RECURSIVE DiffK(_, _)
DiffK(x, k) == IF k = 0 THEN x ELSE DiffK(Diff(x), k - 1)
Signals6 == [1..6 -> -2..2]
FixedLemma ==
  \A x \in Signals6 : \A k \in 0..4 :
     LET e == DiffK(x, k)
         r == RestoreFixed(SubSeq(x, 1, k), SubSeq(e, k + 1, 6), k)
     IN r.ok /\ r.s = x

---------------------------------------------------------------------------
(* quantised LPC: e[t] = x[t] - ((sum_j c[j] * x[t-j]) >> shift), inverse = RestoreLpc *)
LpcResidual(x, c, shift) ==
  LET ord == Len(c)
  IN [t \in (ord + 1)..Len(x) |->
        x[t] - (FoldLeft(LAMBDA a, j : a + c[j] * x[t - j], 0, Idx(1, ord)) \div 2^shift)]
LpcLemma ==
  \A x \in [1..5 -> {-7, -1, 0, 3, 8}] : \A c \in [1..2 -> {-3, 1, 2}] : \A sh \in {0, 1, 3} :
     LET e == LpcResidual(x, c, sh)
         r == RestoreLpc(SubSeq(x, 1, 2), [i \in 1..3 |-> e[i + 2]], c, sh)
     IN r.ok /\ r.s = x

---------------------------------------------------------------------------
(* BlockSizeSpec::from_size, match arms in source order -> <<code, extra bytes>> *)
Pow2Of(n) == CHOOSE k \in 0..15 : 2^k = n
BlockSizeCode(size) ==
  IF size = 192 THEN << 1, <<>> >>
  ELSE IF size \in {576, 1152, 2304, 4608} THEN << 2 + Pow2Of(size \div 576), <<>> >>
  ELSE IF size \in {256, 512, 1024, 2048, 4096, 8192, 16384, 32768} THEN << 8 + Pow2Of(size \div 256), <<>> >>
  ELSE IF size <= 256 THEN << 6, <<size - 1>> >>
  ELSE << 7, << (size - 1) \div 256, (size - 1) % 256 >> >>
\* what a decoder reads back (RFC 9639 table 14), same arithmetic as FlacFormat!ParseHeader
BlockSizeOf(code, extra) ==
  IF code = 1 THEN 192 ELSE IF code \in 2..5 THEN 576 * 2^(code - 2)
  ELSE IF code = 6 THEN extra[1] + 1 ELSE IF code = 7 THEN extra[1] * 256 + extra[2] + 1
  ELSE IF code >= 8 THEN 256 * 2^(code - 8) ELSE 0
BlockSizeLemma == \A size \in 1..65535 :
                     LET ce == BlockSizeCode(size) IN ce[1] \in 1..15 /\ BlockSizeOf(ce[1], ce[2]) = size

---------------------------------------------------------------------------
(* SampleRateSpec::from_freq: named rates, then kHz (8 bit), then 10 Hz (16 bit), then Hz (16 bit), else none *)
NamedRates == << 88200, 176400, 192000, 8000, 16000, 22050, 24000, 32000, 44100, 48000, 96000 >>
RateCode(f) ==
  IF \E i \in 1..11 : NamedRates[i] = f THEN << CHOOSE i \in 1..11 : NamedRates[i] = f, <<>> >>
  ELSE IF f % 1000 = 0 /\ f \div 1000 <= 255 THEN << 12, << f \div 1000 >> >>
  ELSE IF f % 10 = 0 /\ f \div 10 <= 65535 THEN << 14, << (f \div 10) \div 256, (f \div 10) % 256 >> >>
  ELSE IF f <= 65535 THEN << 13, << f \div 256, f % 256 >> >>
  ELSE << 0, <<>> >>            \* encode_frame_impl falls back to "take it from STREAMINFO"
RateOf(code, extra) ==
  IF code = 0 THEN -1 ELSE IF code <= 11 THEN NamedRates[code]
  ELSE IF code = 12 THEN extra[1] * 1000 ELSE IF code = 13 THEN extra[1] * 256 + extra[2]
  ELSE (extra[1] * 256 + extra[2]) * 10
\* every rate either round-trips through its code or is left to STREAMINFO; code 1111 is never chosen
RateLemma == \A f \in 0..655350 :
                LET ce == RateCode(f) IN ce[1] \in 0..14 /\ (RateOf(ce[1], ce[2]) = f \/ ce[1] = 0)
\* ... and inside the supported domain (<= 96000) a rate is left to STREAMINFO only if no code can carry it
RateCompleteness == \A f \in 1..96000 :
                       RateCode(f)[1] = 0 => (f > 65535 /\ f % 10 # 0)

---------------------------------------------------------------------------
(* UTF-8-style numbers: utf8like_bytesize(v) = 1 if bits <= 7 else 1 + (bits - 2) / 5 *)
BitLen(v) == IF v = 0 THEN 0 ELSE CHOOSE k \in 1..31 : 2^(k - 1) <= v /\ (k = 31 \/ v < 2^k)
ByteSizeFormula(v) == IF BitLen(v) <= 7 THEN 1 ELSE 1 + (BitLen(v) - 2) \div 5
Utf8Values == 0..131072 \cup UNION { { v \in (2^k - 64)..(2^k + 64) : v >= 0 } : k \in 1..30 } \cup {2147483647}
Utf8Lemma == \A v \in Utf8Values :
                LET hi == v \div 16777216
                    lo == v % 16777216
                    enc == Utf8Enc(hi, lo)
                    dec == Utf8Dec(enc, 1)
                IN /\ Len(enc) = ByteSizeFormula(v)
                   /\ dec.ok /\ dec.canon /\ dec.len = Len(enc) /\ dec.hi = hi /\ dec.lo = lo

ASSUME FoldLemma
ASSUME SplitLemma
ASSUME StereoLemma
ASSUME WidthLemma
ASSUME FixedLemma
ASSUME LpcLemma
ASSUME BlockSizeLemma
ASSUME RateLemma
ASSUME RateCompleteness
ASSUME Utf8Lemma

VARIABLE x
Init == x = 0
Next == UNCHANGED x
Spec == Init /\ [][Next]_x
=============================================================================
