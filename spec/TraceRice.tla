------------------------------ MODULE TraceRice ------------------------------
(***************************************************************************)
(* Binds RiceSearch.tla to src/rice.rs: `find_partitioned_rice_parameter`  *)
(* is called directly (hook verif::rice_find) on tie-rich residuals; the   *)
(* result must be what the search model predicts with the code's real      *)
(* constants (FlacFormat!RiceChoice = RiceSearch's TieRule: minimal cost,  *)
(* finest order and smallest parameters among equal costs) and the         *)
(* reported bits must be the true size (RiceSearch!BitsHonest).            *)
(* Not a listed property by itself (C13 speaks about emitted residuals):   *)
(* mismatches are tagged MD13 and reported as MODEL-DIVERGENCE.            *)
(***************************************************************************)
EXTENDS Naturals, Integers, Sequences, SequencesExt, FiniteSets, FiniteSetsExt, TLC, Json, IOUtils, FlacFormat
Rec == ndJsonDeserialize(IOEnv.TRACE)
VARIABLES l
Ev == Rec[l]
Problems(e) ==
  IF e.panic THEN {"MD13: the parameter search panicked"} ELSE
  LET n == Len(e.sig)
  IN UNION { (IF e.bits + 6 # rc.cost
                THEN {"MD13: search reports " \o ToString(e.bits) \o " bits, the minimum over the search space is " \o ToString(rc.cost - 6)} ELSE {}) \cup
             (IF e.order # rc.order \/ e.ps # rc.params
                THEN {"MD13: search chose order " \o ToString(e.order) \o " parameters " \o ToString(e.ps) \o ", the model predicts order "
                      \o ToString(rc.order) \o " parameters " \o ToString(rc.params)} ELSE {})
             : rc \in {RiceChoice(SubSeq(e.sig, e.warm + 1, n), n, e.warm, e.maxp)} }
Init == l = 1
Step ==
  /\ l <= Len(Rec) /\ l' = l + 1
  /\ \E bad \in {Problems(Ev)} :
       PrintT("VERDICT|" \o Ev.id \o (IF bad = {} THEN "|pass|" ELSE "|DIVERGED|" \o FoldSet(LAMBDA x, a : a \o x \o " ;; ", "", bad)))
Spec == Init /\ [][Step]_l
Consumed == \/ TLCGet("stats").diameter = Len(Rec) + 1
            \/ (PrintT(<<"UNCONSUMED", TLCGet("stats").diameter, Len(Rec)>>) /\ FALSE)
=============================================================================
