\* one fault-free scenario, small enough to dump the complete state graph (edges labelled by thread)
SPECIFICATION Spec
CONSTANTS
  Ws = {2}
  Ns = {2}
  M = 2
  PQCAP = 16
  FailAts = {99}
  BadSets = {{}}
  EofFills = {TRUE}
  Variant = "repaired"
INVARIANTS TypeOK BufferInOnePlace LockDiscipline FrameNumbering SinkComplete HashedInOrder NoLeak NoPanic SameKindAsSequential
CHECK_DEADLOCK FALSE
