SPECIFICATION TSpec
CONSTANTS
  Palette = {}
  MetaKinds = {}
  SizeArgs = {}
  MaxCalls = 0
POSTCONDITION Consumed
CHECK_DEADLOCK FALSE
