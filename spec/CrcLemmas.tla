------------------------------ MODULE CrcLemmas ------------------------------
(***************************************************************************)
(* Design-level half of property C16: the frame CRC-16 (and the header     *)
(* CRC-8) detect every alteration confined to a run of at most 16 (8)      *)
(* bits.  An alteration is a non-zero error polynomial e(x) = x^k * b(x)   *)
(* with deg b < 16; the check value of the altered frame differs iff       *)
(* e(x) mod g(x) # 0.  Both generators have constant term 1, so x^k is a   *)
(* unit modulo g and e mod g = 0 iff b mod g = 0; it therefore suffices to *)
(* evaluate all non-zero b of up to 16 (8) bits, which TLC does here when  *)
(* it evaluates the ASSUMEs (65 535 + 255 remainders).                     *)
(***************************************************************************)
EXTENDS Naturals, Sequences, Crc

\* remainder of the 16-bit pattern p (as two message bytes) / of the 8-bit pattern p
Rem16(p) == Crc16(<<p \div 256, p % 256>>, 1, 2)
Rem8(p)  == Crc8(<<p>>, 1, 1)

ASSUME TablesOk
ASSUME \A p \in 1..65535 : Rem16(p) # 0      \* every burst of <= 16 bits changes the frame CRC-16
ASSUME \A p \in 1..255 : Rem8(p) # 0         \* every burst of <= 8 bits changes the header CRC-8
\* (the generators' constant terms: 0x8005 and 0x07 are odd)
ASSUME 32773 % 2 = 1 /\ 7 % 2 = 1

VARIABLE x
Init == x = 0
Next == UNCHANGED x
Spec == Init /\ [][Next]_x
=============================================================================
