------------------------------- MODULE ApiGen -------------------------------
(* Generator of argument vectors for Api.tla: every argument from its boundary / wrap-around grid with
   the others valid, plus pairs (C17).  One vector per initial state; written to IOEnv.OUT17. *)
EXTENDS Api, Json, IOUtils, SequencesExt, FiniteSetsExt

ChGrid   == {0, 1, 2, 8, 9, 255, 256 + 2, 65536 + 2, P32 + 2, Huge}
BpsGrid  == {0, 1, 4, 7, 8, 9, 12, 15, 16, 17, 20, 24, 25, 28, 32, 33, 256 + 16, 65536 + 16, P32 + 16, Huge}
RateGrid == {0, 1, 44100, 96000, 96001, 655350, 655351, 1048576 + 44100, P32 + 44100, Huge}
BsGrid   == {0, 1, 16, 31, 32, 33, 4096, 32767, 32768, 65535, 65536 + 64, P32 + 64, Huge}
FnumGrid == {0, 1, 127, 128, 2047, 2048, 65536, 2147483646, P32, P32 + 7, Huge}   \* 2147483646 = 2^31-1 here, P32 = 2^31

StreamBase == [call |-> "stream", ch |-> 2, bps |-> 16, rate |-> 44100, bs |-> 64, excess |-> FALSE, where |-> 0, bdel |-> 0]
Singles(b, f, S) == { [b EXCEPT ![f] = v] : v \in S }
\* the out-of-range sample at every position class
WithExcess(b) == { [b EXCEPT !.excess = TRUE, !.where = w] : w \in 1..7 }
StreamVecs ==
  LET one == Singles(StreamBase, "ch", ChGrid) \cup Singles(StreamBase, "bps", BpsGrid) \cup
             Singles(StreamBase, "rate", RateGrid) \cup Singles(StreamBase, "bs", BsGrid) \cup
             WithExcess(StreamBase) \cup Singles(StreamBase, "bdel", {1, 2, 3, 4})
  IN one \cup UNION { Singles(s, "ch", {0, 1, 8, 9, 256 + 2}) \cup Singles(s, "bps", {8, 9, 24, 25, 256 + 16})
                      \cup Singles(s, "bs", {31, 32, 32767, 32768}) \cup Singles(s, "bdel", {0, 1, 2, 3})
                      \cup WithExcess(s) \cup {[s EXCEPT !.excess = FALSE, !.where = 0]} : s \in one }

FrameBase == [call |-> "frame", ch |-> 2, bps |-> 16, bs |-> 64, fnum |-> 3, excess |-> FALSE, where |-> 0, partial |-> FALSE]
FrameVecs ==
  LET one == Singles(FrameBase, "ch", ChGrid) \cup Singles(FrameBase, "bps", BpsGrid) \cup
             Singles(FrameBase, "bs", BsGrid) \cup Singles(FrameBase, "fnum", FnumGrid) \cup
             WithExcess(FrameBase) \cup Singles(FrameBase, "partial", {TRUE}) \cup
             UNION { WithExcess(f) : f \in { [FrameBase EXCEPT !.partial = p, !.ch = c] : p \in BOOLEAN, c \in {1, 2, 3, 8} } }
  IN one \cup UNION { Singles(s, "fnum", {0, 2147483646, P32}) \cup Singles(s, "bps", {8, 24, 25}) \cup Singles(s, "ch", {1, 8}) : s \in one }

BufVecs == { [call |-> "buf", ch |-> c, size |-> s] : c \in ChGrid, s \in BsGrid }

FillVecs == { [call |-> "fill", ch |-> c, cap |-> cap, n |-> n, extra |-> e, bytes |-> b, ragged |-> r] :
              c \in {1, 2, 3, 8}, cap \in {32, 47}, n \in {0, 1, 31, 32, 33, 46, 47, 48, 64, 1000},
              e \in {0, 1}, b \in {0, 1, 2, 3, 4}, r \in {FALSE, TRUE} } \cap
            { v \in [call : {"fill"}, ch : {1, 2, 3, 8}, cap : {32, 47}, n : {0, 1, 31, 32, 33, 46, 47, 48, 64, 1000},
                     extra : {0, 1}, bytes : {0, 1, 2, 3, 4}, ragged : BOOLEAN] :
              (v.ragged => v.bytes >= 2) /\ (v.extra = 1 => v.ch >= 2) }

CtxVecs == { [call |-> "ctx", bps |-> p, ch |-> c, bytes |-> b] : p \in {8, 12, 16, 20, 24, 32}, c \in {1, 2, 8}, b \in {1, 2, 3, 4} }

All == StreamVecs \cup FrameVecs \cup BufVecs \cup FillVecs \cup CtxVecs
Vec17 == { [args |-> c, verdict |-> Verdict(c)] : c \in All }

ASSUME IOEnv.OUT17 = "" \/ ndJsonSerialize(IOEnv.OUT17, SetToSeq(Vec17))
ASSUME PrintT(<<"GENERATED", Cardinality(Vec17)>>)

VARIABLE v
Init == v \in All
Next == UNCHANGED v
Spec == Init /\ [][Next]_v
\* design-level sanity: every vector has a verdict, and the all-valid base calls are "ok"
VerdictTotal == Verdict(v) \in {"ok", "err", "either"}
BasesOk == Verdict(StreamBase) = "ok" /\ Verdict(FrameBase) = "ok"
=============================================================================
