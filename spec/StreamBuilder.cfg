SPECIFICATION Spec
CONSTANTS
  Palette <- MCPalette
  MetaKinds <- MCMetaKinds
  SizeArgs <- MCSizeArgs
  MaxCalls = 4
INVARIANTS ChainOk BoundsExact NoSentinelOnWire WellNumberedVerifies
CHECK_DEADLOCK FALSE
