SPECIFICATION Spec
INVARIANTS VerdictTotal BasesOk
CHECK_DEADLOCK FALSE
