SPECIFICATION Spec
CONSTANTS
  Par = TRUE
  Experimental = FALSE
  DocMode = "pairs"
INVARIANTS DefaultIsValid VerdictExplained
CHECK_DEADLOCK FALSE
