------------------------------ MODULE TracePar ------------------------------
(***************************************************************************)
(* Trace validation of the real multi-thread encoder against ParEncoder.   *)
(*                                                                         *)
(* The harness (fv sched-random) runs the real threads under its           *)
(* deterministic scheduler with seeded random / PCT schedules and random   *)
(* fault scenarios, and records one `step` event per scheduling decision:  *)
(* the thread that was let run, the observation point it was parked at,    *)
(* and the set of threads that were runnable.  Each event must be the      *)
(* corresponding thread action of ParEncoder, taken from a state in which  *)
(* the thread's program counter is that observation point and in which     *)
(* exactly the recorded threads are enabled.  ParEncoder's invariants      *)
(* (C03/C05/C06 conjuncts) are evaluated in every state of the trace.      *)
(***************************************************************************)
EXTENDS ParEncoder, Json, IOUtils, SequencesExt, FiniteSetsExt

Rec == ndJsonDeserialize(IOEnv.TRACE)

VARIABLES l,       \* next event
          div,     \* "" or the reason why the current case left the model
          viol     \* violated property conjuncts of the current case
tvars == << vars, l, div, viol >>

Ev == Rec[l]


\* worker index (1-based) of a role name "w0", "w1", ...
WorkerOf(t) == CHOOSE k \in 1..8 : t = "w" \o ToString(k - 1)
IsWorker(t) == \E k \in 1..8 : t = "w" \o ToString(k - 1)

Act(t) == IF t = "m" THEN Main ELSE IF t = "h" THEN Hasher ELSE Worker(WorkerOf(t))
PcOf(t) == IF t = "m" THEN mpc ELSE IF t = "h" THEN hpc
           ELSE IF WorkerOf(t) \in Workers THEN wpc[WorkerOf(t)] ELSE "none"

Roles == {"m", "h"} \cup { "w" \o ToString(k - 1) : k \in Workers }
EnabledRoles == { t \in Roles : ENABLED Act(t) }

PropsViolated ==
  (IF ~TypeOK THEN {"TypeOK"} ELSE {}) \cup
  (IF ~BufferInOnePlace THEN {"C05 BufferInOnePlace"} ELSE {}) \cup
  (IF ~LockDiscipline THEN {"C05 LockDiscipline"} ELSE {}) \cup
  (IF ~FrameNumbering THEN {"C05 FrameNumbering"} ELSE {}) \cup
  (IF ~SinkComplete THEN {"C05 SinkComplete"} ELSE {}) \cup
  (IF ~HashedInOrder THEN {"C03 HashedInOrder"} ELSE {}) \cup
  (IF ~NoLeak THEN {"C06 NoLeak"} ELSE {}) \cup
  (IF ~NoPanic THEN {"C06 NoPanic"} ELSE {}) \cup
  (IF ~SameKindAsSequential THEN {"C06 SameKindAsSequential"} ELSE {})

ParInitFor(cs) ==
  /\ cfgv = [W |-> cs.W, N |-> cs.N, failAt |-> cs.fail,
             bad |-> { cs.bad[i] : i \in 1..Len(cs.bad) }, fill |-> cs.fill]
  /\ wblk = [w \in 1..cs.W |-> Stop]
  /\ mpc = "m.begin" /\ mi = 0 /\ fbuf = 0 /\ fcount = 0 /\ reads = 0 /\ rdres = "none"
  /\ wpc = [w \in 1..cs.W |-> "none"] /\ wbuf = [w \in 1..cs.W |-> 0]
  /\ wnum = [w \in 1..cs.W |-> Stop] /\ wok = [w \in 1..cs.W |-> TRUE]
  /\ hpc = "none" /\ hcur = Stop
  /\ encq = <<>> /\ refq = <<>> /\ pq = <<>>
  /\ lock = [b \in 1..(cs.W * M) |-> 0] /\ bufnum = [b \in 1..(cs.W * M) |-> Stop]
  /\ bufblk = [b \in 1..(cs.W * M) |-> Stop]
  /\ sink = {} /\ hashed = <<>> /\ total = 0
  /\ result = "none" /\ pqSenders = TRUE

TInit == l = 1 /\ div = "" /\ viol = {} /\ ParInitFor(Rec[1])

\* primed copy of ParInitFor (a `case` event re-initialises the protocol state)
Reset(cs) ==
  /\ cfgv' = [W |-> cs.W, N |-> cs.N, failAt |-> cs.fail,
              bad |-> { cs.bad[i] : i \in 1..Len(cs.bad) }, fill |-> cs.fill]
  /\ wblk' = [w \in 1..cs.W |-> Stop]
  /\ mpc' = "m.begin" /\ mi' = 0 /\ fbuf' = 0 /\ fcount' = 0 /\ reads' = 0 /\ rdres' = "none"
  /\ wpc' = [w \in 1..cs.W |-> "none"] /\ wbuf' = [w \in 1..cs.W |-> 0]
  /\ wnum' = [w \in 1..cs.W |-> Stop] /\ wok' = [w \in 1..cs.W |-> TRUE]
  /\ hpc' = "none" /\ hcur' = Stop
  /\ encq' = <<>> /\ refq' = <<>> /\ pq' = <<>>
  /\ lock' = [b \in 1..(cs.W * M) |-> 0] /\ bufnum' = [b \in 1..(cs.W * M) |-> Stop]
  /\ bufblk' = [b \in 1..(cs.W * M) |-> Stop]
  /\ sink' = {} /\ hashed' = <<>> /\ total' = 0
  /\ result' = "none" /\ pqSenders' = TRUE

TCase ==
  /\ l <= Len(Rec) /\ Ev.ev = "case"
  /\ l' = l + 1 /\ div' = "" /\ viol' = {}
  /\ Reset(Ev)

\* the recorded step is explained by the model
Explained ==
  /\ PcOf(Ev.t) = Ev.site
  /\ EnabledRoles = { Ev.en[i] : i \in 1..Len(Ev.en) }
  /\ Act(Ev.t)

TStep ==
  /\ l <= Len(Rec) /\ Ev.ev = "step"
  /\ l' = l + 1
  /\ IF div # "" THEN UNCHANGED << vars, div, viol >>
     ELSE \/ /\ Explained
             /\ div' = ""
             /\ viol' = viol \cup PropsViolated'
          \/ /\ ~ENABLED Explained
             /\ div' = "event " \o ToString(l) \o ": thread " \o Ev.t \o " at " \o Ev.site
                       \o " (model pc " \o PcOf(Ev.t) \o ") with runnable set " \o ToString(Ev.en)
                       \o " is not a step of ParEncoder; the model enables " \o ToString(EnabledRoles)
             /\ UNCHANGED << vars, viol >>

TEnd ==
  /\ l <= Len(Rec) /\ Ev.ev = "end"
  /\ l' = l + 1 /\ UNCHANGED << vars, div, viol >>
  /\ LET final ==
           viol \cup
           (IF div = "" /\ EnabledRoles # {} THEN {"C06 the real threads stopped but the model can still move: " \o ToString(EnabledRoles)} ELSE {}) \cup
           (IF div = "" /\ result # Ev.result THEN {"C06 result " \o Ev.result \o " but the model says " \o result} ELSE {}) \cup
           (IF div = "" /\ ~Returned THEN {"C06 the call did not return"} ELSE {})
     IN PrintT("VERDICT|" \o Ev.id \o
               (IF div # "" THEN "|DIVERGED|" \o div
                ELSE IF final = {} THEN "|pass|"
                ELSE "|FAIL|" \o FoldSet(LAMBDA x, a : a \o x \o " ;; ", "", final)))

TNext == TCase \/ TStep \/ TEnd
TSpec == TInit /\ [][TNext]_tvars

Consumed == \/ TLCGet("stats").diameter = Len(Rec) + 1
            \/ (PrintT(<<"UNCONSUMED", TLCGet("stats").diameter, Len(Rec)>>) /\ FALSE)
=============================================================================
