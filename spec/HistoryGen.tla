----------------------------- MODULE HistoryGen -----------------------------
(* Writes every history of length <= MaxLen over the alphabet to IOEnv.OUT10 (one JSON array per line). *)
EXTENDS History, Json, IOUtils, SequencesExt, FiniteSetsExt
ASSUME IOEnv.OUT10 = "" \/ ndJsonSerialize(IOEnv.OUT10, SetToSeq({ [h |-> hh] : hh \in Histories }))
ASSUME PrintT(<<"GENERATED", Cardinality(Histories)>>)
=============================================================================
