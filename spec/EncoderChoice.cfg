SPECIFICATION Spec
CONSTANTS
  MaxBits = 6
INVARIANTS StereoOptimal StereoMonotone SubOptimal SubMonotone ConstantRule
CHECK_DEADLOCK FALSE
