SPECIFICATION Spec
CONSTANTS
  WORD = 8
  Widths = {8, 16}
  ALIGN = 8
  MaxOps = 3
  Kind = "byte"
  Variant = "repaired"
INVARIANTS Refines
CHECK_DEADLOCK FALSE
