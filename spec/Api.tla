-------------------------------- MODULE Api --------------------------------
(***************************************************************************)
(* The public encoding API as an abstract machine (property C17): for each *)
(* entry point the set of valid arguments, and the verdict the library     *)
(* must give for an argument vector:                                       *)
(*   "ok"     - must succeed, and the result states the given values        *)
(*   "err"    - must return an error (no panic, no hang, no silent         *)
(*              reinterpretation of the value)                             *)
(*   "either" - the property list does not rule on it: accept or reject,   *)
(*              but never panic; if accepted the result states the values  *)
(* Huge stands for usize::MAX, P32(k) for 2^32 + k (values that only       *)
(* become in-range after truncation to 32 bits), similarly 2^8+k, 2^16+k.  *)
(***************************************************************************)
EXTENDS Naturals, Integers, Sequences, FiniteSets, TLC

Huge == 2147483647
\* P32 + k stands for 2^32 + k (TLC integers are 32 bit); 0 <= k < 10^6
P32 == 2000000000
IsP32(x) == x >= P32 /\ x < Huge
Big(x) == x >= P32                        \* beyond any valid value of any argument

Widths == {8, 12, 16, 20, 24}
SideWidths == {9, 13, 17, 21, 25}          \* legal for side channels of components; unspecified at stream level

ValidCh(ch) == ch >= 1 /\ ch <= 8
ValidBs(bs) == bs >= 32 /\ bs <= 32767
ValidRate(r) == r >= 1 /\ r <= 96000

\* ---------------------------------------------------------------- stream-level entry point
\* c = [ch, bps, rate, bs, excess (a sample just outside the width), where (WHICH sample that is: 0 = none,
\*      1 first, 2 second interleaved value, 3 middle, 4 the very last value (last channel of the final short
\*      block), 5 last channel one step earlier, 6 first channel of the last step, 7 one such sample in EVERY block
\*      of a longer input (more invalid blocks than worker threads); odd = just above the maximum,
\*      even = just below the minimum - the verdict does not depend on it), bdel (bytes per sample used by a
\*      byte-delivering source, 0 = integer delivery)]
\* (a sample outside the width cannot be expressed in packed bytes of exactly that width: with byte
\*  delivery of ceil(bps/8) = bps/8 bytes the flag has no effect)
Excess(c) == c.excess /\ (c.bdel = 0 \/ 8 * c.bdel > c.bps)
StreamVerdict(c) ==
  IF ~ValidCh(c.ch) \/ ~ValidBs(c.bs) \/ c.rate > 96000 \/ Excess(c) THEN "err"
  ELSE IF c.bps \notin (Widths \cup SideWidths) THEN "err"
  ELSE IF c.bdel # 0 /\ c.bdel # (c.bps + 7) \div 8 THEN "err"
  ELSE IF c.bps \in SideWidths \/ c.rate = 0 THEN "either"
  ELSE "ok"

\* ---------------------------------------------------------------- frame-level entry point
\* c = [ch, bps, bs, fnum, excess, where, partial]: FrameBuf::with_size(ch, bs), one fill (of bs - 5 samples when
\* `partial`: a final short block), StreamInfo::new(44100, ch, bps), encode_fixed_size_frame(.., fnum, ..)
FrameVerdict(c) ==
  IF ~ValidCh(c.ch) \/ ~ValidBs(c.bs) \/ c.excess THEN "err"
  ELSE IF c.bps \notin (Widths \cup SideWidths) THEN "err"
  ELSE IF c.fnum >= P32 \/ c.fnum = Huge THEN "err"          \* P32 encodes 2^31 and above here, see FnumOf
  ELSE IF c.bps \in SideWidths THEN "either"
  ELSE "ok"

\* ---------------------------------------------------------------- FrameBuf::with_size(ch, size)
BufVerdict(c) == IF ValidCh(c.ch) /\ ValidBs(c.size) THEN "ok" ELSE "err"

\* ---------------------------------------------------------------- Fill on a FrameBuf of capacity cap
\* c = [ch, cap, n (inter-channel samples delivered), extra (dangling values that do not make a whole
\*      inter-channel sample), bytes (0 = integers, else bytes per sample), ragged (byte count not a multiple)]
\* (n * ch + extra values are delivered; the buffer holds cap * ch)
FillVerdict(c) ==
  IF c.n > c.cap \/ (c.n = c.cap /\ c.extra > 0) THEN "err"
  ELSE IF c.bytes > 4 \/ (c.bytes = 0 /\ FALSE) THEN "err"
  ELSE IF c.extra > 0 \/ c.ragged THEN "either"
  ELSE "ok"

\* ---------------------------------------------------------------- Fill on a Context declared with bps
\* c = [bps, ch, bytes]: fill_le_bytes with `bytes` per sample
CtxVerdict(c) ==
  IF c.bytes = (c.bps + 7) \div 8 THEN "ok" ELSE "err"

Verdict(c) ==
  CASE c.call = "stream" -> StreamVerdict(c)
    [] c.call = "frame"  -> FrameVerdict(c)
    [] c.call = "buf"    -> BufVerdict(c)
    [] c.call = "fill"   -> FillVerdict(c)
    [] c.call = "ctx"    -> CtxVerdict(c)

\* an observed outcome is acceptable for a call
Acceptable(c, outcome) ==
  LET v == Verdict(c) IN
  /\ outcome \in {"ok", "err"}                  \* never "panic", "hang"
  /\ (v = "ok" => outcome = "ok")
  /\ (v = "err" => outcome = "err")
=============================================================================
