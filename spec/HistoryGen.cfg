SPECIFICATION Spec
CONSTANTS
  Alphabet = {"A","B","C","D","E","F","G","H","I","J","K","L","M","N"}
  MaxLen = 3
  KeyMode = "exact"
INVARIANTS CacheCoherent
CHECK_DEADLOCK FALSE
