SPECIFICATION Spec
CONSTANTS
  MaxBits = 3
INVARIANTS LadderSound
CHECK_DEADLOCK FALSE
