----------------------------- MODULE TraceHistory -----------------------------
(* C10 trace validation: `ref` events fix F[c] (call made alone on a fresh thread), `call` events are the
   calls of the histories on a long-lived thread; a result different from F[c] is a violation. *)
EXTENDS Naturals, Sequences, SequencesExt, FiniteSetsExt, TLC, Json, IOUtils
Rec == ndJsonDeserialize(IOEnv.TRACE)
VARIABLES l, F
Ev == Rec[l]
Init == l = 1 /\ F = << >>
Step ==
  /\ l <= Len(Rec) /\ l' = l + 1
  /\ IF Ev.ev = "ref"
     THEN /\ F' = [c \in DOMAIN F \cup {Ev.call} |-> IF c = Ev.call THEN Ev.digest ELSE F[c]]
          /\ (Ev.call \notin DOMAIN F \/ F[Ev.call] = Ev.digest
              \/ PrintT("VERDICT|" \o Ev.id \o "|FAIL|C10: call " \o Ev.call \o " made twice on fresh threads gives two different results ;; "))
     ELSE /\ UNCHANGED F
          /\ PrintT("VERDICT|" \o Ev.id \o
               (IF Ev.call \in DOMAIN F /\ F[Ev.call] = Ev.digest THEN "|pass|"
                ELSE "|FAIL|C10: call " \o Ev.call \o " (" \o Ev.what \o ") as step " \o ToString(Ev.pos) \o " of history " \o ToString(Ev.h)
                     \o " gives a different result than the same call alone on a fresh thread ;; "))
Spec == Init /\ [][Step]_<<l, F>>
Consumed == \/ TLCGet("stats").diameter = Len(Rec) + 1
            \/ (PrintT(<<"UNCONSUMED", TLCGet("stats").diameter, Len(Rec)>>) /\ FALSE)
=============================================================================
