------------------------------- MODULE History -------------------------------
(***************************************************************************)
(* C10: the library as a *stateless* machine.  Every call c of the         *)
(* alphabet has one result F[c]; F is unknown and is fixed by the first    *)
(* observation of c (made alone on a fresh thread).  A history is a finite *)
(* sequence of calls executed on one long-lived thread; the machine allows *)
(* exactly the behaviours in which the i-th call of every history returns  *)
(* F[h[i]].                                                                *)
(*                                                                         *)
(* WindowCache below is a mechanism model of the one cache with a derived  *)
(* key (lpc.rs): the analysis window is cached per thread under            *)
(* (size, fingerprint(alpha)).  With KeyMode = "quantised" the fingerprint *)
(* is floor(alpha * 65535) as at the pinned commit and TLC finds two       *)
(* alphas that share a key (the shape of the dangerous histories: same     *)
(* block size, window parameters closer than 2^-16); with "exact" (bits of *)
(* the float, after the fix) the invariant CacheCoherent holds.            *)
(***************************************************************************)
EXTENDS Naturals, Sequences, FiniteSets, TLC

CONSTANTS Alphabet,     \* call identifiers
          MaxLen,       \* histories of length 1..MaxLen
          KeyMode       \* "quantised" | "exact"

Histories == UNION { [1..n -> Alphabet] : n \in 1..MaxLen }

---------------------------------------------------------------------------
\* alphas in units of 2^-20 (so 1.0 = 1048576); sizes abstract
Alphas == {0, 1, 16, 17, 419430, 419431, 1048576}
Sizes == {64, 4096}
Fingerprint(a) == IF KeyMode = "quantised" THEN (a * 65535) \div 1048576 ELSE a

VARIABLES cache,   \* function from keys <<size, fp>> to the alpha whose window is stored
          last     \* <<requested <<size, alpha>>, returned alpha>> of the last request
Init == cache = << >> /\ last = << <<0, 0>>, 0 >>
Request(sz, a) ==
  LET key == <<sz, Fingerprint(a)>>
  IN IF key \in DOMAIN cache
     THEN /\ last' = << <<sz, a>>, cache[key] >> /\ UNCHANGED cache
     ELSE /\ cache' = [k \in DOMAIN cache \cup {key} |-> IF k = key THEN a ELSE cache[k]]
          /\ last' = << <<sz, a>>, a >>
Next == \E sz \in Sizes, a \in Alphas : Request(sz, a)
Spec == Init /\ [][Next]_<<cache, last>>
\* the window handed out is the window that was asked for
CacheCoherent == last[2] = last[1][2]
=============================================================================
