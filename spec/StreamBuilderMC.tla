--------------------------- MODULE StreamBuilderMC ---------------------------
EXTENDS StreamBuilder
MCPalette == {[bs |-> 32, bytes |-> 11, var |-> FALSE, num |-> 0], [bs |-> 64, bytes |-> 75, var |-> FALSE, num |-> 1],
              [bs |-> 17, bytes |-> 30, var |-> FALSE, num |-> 2], [bs |-> 32, bytes |-> 12, var |-> TRUE, num |-> 0],
              [bs |-> 64, bytes |-> 76, var |-> TRUE, num |-> 32]}
MCMetaKinds == {[tag |-> 4, len |-> 0], [tag |-> 126, len |-> 5]}
MCSizeArgs == {0, 16, 64, 40000, BIG}
=============================================================================
