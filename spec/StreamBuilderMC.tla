--------------------------- MODULE StreamBuilderMC ---------------------------
EXTENDS StreamBuilder
MCPalette == {[bs |-> 32, bytes |-> 11], [bs |-> 64, bytes |-> 75], [bs |-> 17, bytes |-> 30]}
MCMetaKinds == {[tag |-> 4, len |-> 0], [tag |-> 126, len |-> 5]}
MCSizeArgs == {0, 16, 64, 40000, BIG}
=============================================================================
