------------------------------ MODULE TraceLong ------------------------------
(***************************************************************************)
(* Digest validation of VERY long streams (10^6 frames of tiny blocks):    *)
(* every frame number of the 1..4-byte classes of the UTF-8-style code     *)
(* occurs in one real stream, which TLC cannot decode byte by byte.        *)
(*                                                                         *)
(* `long`  : marker + STREAMINFO (42 bytes), geometry, and `rle` = the     *)
(*           byte length each frame has when written on its own and the    *)
(*           size it reports (count_bits), run-length coded over the frame *)
(*           index:  [first, count, len, cb].                              *)
(* `lf`    : a sampled frame: index k, its bytes as they stand in the      *)
(*           stream, its input block x - parsed completely here.           *)
(* `lend`  : closes the case.                                              *)
(*                                                                         *)
(* Conjuncts (selected by props):                                          *)
(*   C04  min/max frame size fields = min/max over ALL frame lengths;      *)
(*        block-size fields                                                *)
(*   C08  every frame reports 8 * its written length; stream count_bits =  *)
(*        bytes written; sampled frames: structural size                   *)
(*   C01  total samples; sampled frames decode to the input block          *)
(*   C02  sampled frames are well formed, numbered by their index          *)
(*   C05  single-thread and multi-thread bytes equal                       *)
(* The run-length list is trusted only as far as it is cross-checked: the  *)
(* lengths add up to the stream length, runs tile 0..nframes-1, and every  *)
(* sampled frame parses to exactly the length its run claims, with valid   *)
(* CRCs, at the offset the lengths before it add up to.                    *)
(***************************************************************************)
EXTENDS Naturals, Integers, Sequences, SequencesExt, FiniteSets, FiniteSetsExt, TLC, Json, IOUtils, FlacFormat

Rec == ndJsonDeserialize(IOEnv.TRACE)
VARIABLES l, c, bad, seen
vars == <<l, c, bad, seen>>
Ev == Rec[l]
Case == Rec[c]
P(prop) == \E i \in 1..Len(Case.props) : Case.props[i] = prop
Tag(prop, msg) == prop \o ": " \o msg
TagF(prop, kk, msg) == prop \o ": frame " \o ToString(kk) \o ": " \o msg
Verdict(id, final) ==
  "VERDICT|" \o id \o (IF final = {} THEN "|pass|" ELSE "|FAIL|") \o FoldSet(LAMBDA x, a : a \o x \o " ;; ", "", final)

\* wide naturals as <<hi, lo>> with radix 2^24
R == 16777216
Norm(p) == << p[1] + p[2] \div R, p[2] % R >>
\* sum over runs of count * len, as a wide natural (count < 2^22, len < 2^9 in practice; guarded)
RunBytes(r) == Norm(<< 0, 0 >>)
AddWide(a, b) == Norm(<< a[1] + b[1], a[2] + b[2] >>)
MulSmall(count, len) ==       \* count * len with count < 2^24, len < 2^7 * ... split to stay below 2^31
  LET chi == count \div 4096
      clo == count % 4096
  IN Norm(<< (chi * len) \div 4096, ((chi * len) % 4096) * 4096 + clo * len >>)

RunOf(rle, k) == CHOOSE j \in 1..Len(rle) : rle[j].first <= k /\ k < rle[j].first + rle[j].count

Init == l = 1 /\ c = 0 /\ bad = {} /\ seen = 0

Long ==
  /\ l <= Len(Rec) /\ Ev.ev = "long" /\ l' = l + 1 /\ c' = l /\ seen' = 0
  /\ LET cs == Ev
         Pc(prop) == \E i \in 1..Len(cs.props) : cs.props[i] = prop
     IN IF cs.outcome # "ok" THEN bad' = {Tag("ALL", "encoding a valid input failed: " \o cs.outcome)}
        ELSE
        \E h \in {StreamHead(cs.head)} :
        LET rle    == cs.rle
            tiles  == /\ Len(rle) >= 1 /\ rle[1].first = 0
                      /\ \A j \in 1..(Len(rle) - 1) : rle[j + 1].first = rle[j].first + rle[j].count
                      /\ rle[Len(rle)].first + rle[Len(rle)].count = cs.nframes
                      /\ \A j \in 1..Len(rle) : rle[j].count >= 1 /\ (rle[j].len < 4096 \/ (rle[j].count < 16 /\ rle[j].len < 16777216))
            total  == FoldLeft(LAMBDA a, r : AddWide(a, MulSmall(r.count, r.len)), << 0, 42 >>, rle)
            minLen == FoldLeft(LAMBDA a, r : Min2(a, r.len), rle[1].len, rle)
            maxLen == FoldLeft(LAMBDA a, r : Max2(a, r.len), rle[1].len, rle)
        IN /\ Assert(cs.bs \in 32..32767 /\ cs.bps \in {8, 12, 16, 20, 24} /\ cs.frames >= 2 /\ cs.last \in 1..cs.bs, "generator")
           /\ Assert(tiles, <<"harness: runs do not tile the frame indices", cs.id>>)
           /\ bad' =
              (IF ~h.ok \/ ~h.magic \/ h.last # 1 \/ h.type # 0 \/ h.mlen # 34
                 THEN {Tag("ALL", "no fLaC marker / STREAMINFO not the only metadata block")} ELSE {}) \cup
              (IF cs.write_failed # 0 THEN {Tag("ALL", "writing a frame on its own failed")} ELSE {}) \cup
              (IF total # << cs.nbytes_hi, cs.nbytes_lo >>
                 THEN {Tag("ALL", "frames written one by one add up to another length than the stream")} ELSE {}) \cup
              (IF Pc("C01") /\ ~(h.ch = 1 /\ h.bps = cs.bps /\ h.rate = cs.rate)
                 THEN {Tag("C01", "STREAMINFO format differs from the source")} ELSE {}) \cup
              (IF Pc("C01") /\ << h.totHi, h.totLo >> # << cs.n_hi, cs.n_lo >>
                 THEN {Tag("C01", "stream length differs from the input length")} ELSE {}) \cup
              (IF Pc("C01") /\ cs.nframes # cs.frames THEN {Tag("C01", "number of blocks differs")} ELSE {}) \cup
              (IF Pc("C04") THEN
                 (IF h.maxbs # cs.bs THEN {Tag("C04", "max block size " \o ToString(h.maxbs) \o " is not the requested " \o ToString(cs.bs))} ELSE {}) \cup
                 (IF h.minbs < 16 \/ h.minbs > cs.bs THEN {Tag("C04", "min block size " \o ToString(h.minbs) \o " outside 16..block size")} ELSE {}) \cup
                 (IF h.minfs # minLen THEN {Tag("C04", "min frame size " \o ToString(h.minfs) \o " but smallest frame has " \o ToString(minLen))} ELSE {}) \cup
                 (IF h.maxfs # maxLen THEN {Tag("C04", "max frame size " \o ToString(h.maxfs) \o " but largest frame has " \o ToString(maxLen))} ELSE {})
               ELSE {}) \cup
              (IF Pc("C08") THEN
                 UNION { IF rle[j].cb # 8 * rle[j].len
                         THEN {Tag("C08", "frames " \o ToString(rle[j].first) \o ".." \o ToString(rle[j].first + rle[j].count - 1)
                                          \o ": count_bits " \o ToString(rle[j].cb) \o " but " \o ToString(rle[j].len) \o " bytes written")}
                         ELSE {} : j \in 1..Len(rle) } \cup
                 (IF << cs.count_hi, cs.count_lo >> # << cs.nbytes_hi, cs.nbytes_lo >> \/ cs.count_rem # 0
                    THEN {Tag("C08", "stream count_bits differs from the bits written")} ELSE {})
               ELSE {}) \cup
              (IF Pc("C05") /\ ~cs.modes_equal
                 THEN {Tag("C05", "single-thread and multi-thread encoding of the same input give different bytes")} ELSE {})

Frame ==
  /\ l <= Len(Rec) /\ Ev.ev = "lf" /\ c > 0 /\ l' = l + 1 /\ c' = c /\ seen' = seen + 1
  /\ IF Case.outcome # "ok" THEN bad' = bad ELSE
     \E h \in {StreamHead(Case.head)} : \E f \in {ParseFrame(Ev.bytes, 0, h.bps)} :
     LET cs == Case
         k  == Ev.k
         run == cs.rle[RunOf(cs.rle, k)]
         isLast == k = cs.nframes - 1
     IN IF ~f.ok THEN bad' = bad \cup {TagF("ALL", k, "frame does not parse: " \o f.why)}
        ELSE bad' = bad \cup
          (IF f.next # Len(Ev.bytes) \/ f.len # run.len \/ Len(Ev.bytes) # Ev.len
             THEN {TagF("ALL", k, "the frame found at the offset given by the lengths before it is " \o ToString(f.len) \o " bytes, its run says " \o ToString(run.len))} ELSE {}) \cup
          (IF ~Ev.same_alone THEN {TagF("ALL", k, "the frame written on its own differs from its bytes in the stream")} ELSE {}) \cup
          (IF P("C01") /\ f.decoded # Ev.x THEN {TagF("C01", k, "decoded samples differ from the input block")} ELSE {}) \cup
          (IF P("C02") THEN { TagF("C02", k, w) : w \in FrameWf(f, h, k, isLast, cs.bs) } ELSE {}) \cup
          (IF P("C08") /\ (Ev.cb # 8 * f.len \/ Ev.cb # FrameSize(f))
             THEN {TagF("C08", k, "frame count_bits " \o ToString(Ev.cb) \o " vs written " \o ToString(8 * f.len) \o " vs structural " \o ToString(FrameSize(f)))} ELSE {}) \cup
          (IF P("C09") /\ f.len * 8 > VerbatimFrameBits(f, 1, cs.bps) + 16
             THEN {TagF("C09", k, "frame exceeds verbatim + 2 bytes")} ELSE {})

End ==
  /\ l <= Len(Rec) /\ Ev.ev = "lend" /\ c > 0 /\ l' = l + 1 /\ c' = 0 /\ seen' = 0
  /\ LET final == bad \cup (IF Case.outcome = "ok" /\ seen # Case.nsampled THEN {Tag("ALL", "sampled frames missing from the trace")} ELSE {})
     IN PrintT(Verdict(Case.id, final))
  /\ bad' = {}

Next == Long \/ Frame \/ End
Spec == Init /\ [][Next]_vars
Consumed == \/ TLCGet("stats").diameter = Len(Rec) + 1
            \/ (PrintT(<<"UNCONSUMED", TLCGet("stats").diameter, Len(Rec)>>) /\ FALSE)
=============================================================================
