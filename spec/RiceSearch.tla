------------------------------ MODULE RiceSearch ------------------------------
(***************************************************************************)
(* The partitioned-Rice parameter search of src/rice.rs, AS WRITTEN        *)
(* (`PrcBitTable::from_errors`, `minimizer`, `merge`, `eval_partitions`,   *)
(* `merge_partitions`, `finest_partition_order`, `PrcParameterFinder::find`)*)
(* with its machine arithmetic: table entries clamped to CL between chunks  *)
(* of UN errors, merged tables NOT re-clamped, additions modulo the word,   *)
(* the minimiser packing `(entry << SHB) | p` into one word (which drops    *)
(* the high bits of an entry above CL).                                     *)
(*                                                                         *)
(* Against it: the meaning of the code from first principles (`TrueCost` = *)
(* bits the residual coder writes for a partition order and parameters,    *)
(* `TrueMin` = brute force over the whole search space).                   *)
(*                                                                         *)
(* TLC checks, for EVERY input of a scaled-down scope (constants below):   *)
(*   FinestAgrees    the bit trick computes the finest admissible order    *)
(*   EmittedOptimal  whenever the choice codes in fewer than CL bits (every *)
(*                   residual that can be emitted: verbatim is far smaller) *)
(*                   it is a minimum of the search space          -- C13   *)
(*   BitsHonest      ... and the reported `code_bits` is its true size     *)
(*   TieRule         among equal costs the FINEST order and the SMALLEST   *)
(*                   parameter win (what TraceStream predicts, bit by bit) *)
(*   NeverBelowTruth the reported bits never exceed the true minimum       *)
(* `Optimal` (without the "< CL" premise) is FALSE for the code as written: *)
(* RiceSearch_wrap.cfg keeps the counterexample (a lane whose true cost    *)
(* passes the word size looks cheap) - the reason for C13's 2^28 clause.   *)
(***************************************************************************)
EXTENDS Integers, Sequences, FiniteSets, SequencesExt, TLC

CONSTANTS MP,    \* minimum partition size              (code: 64)
          PCAP,  \* lanes of a table are 0..PCAP        (code: 15)
          SHB,   \* bits of the packed parameter        (code: 4)
          CL,    \* clamp = 2^k - 1                     (code: 2^28 - 1)
          UN,    \* errors added between two clamps     (code: 16)
          OCAP,  \* largest partition order             (code: 15)
          NS,    \* block sizes in scope
          EV,    \* folded residual values in scope
          WS,    \* warm-up lengths in scope
          PS     \* configured maximum parameters in scope (<= PCAP - 1: lane PCAP is the escape code)

ASSUME /\ MP >= 1 /\ UN >= 1 /\ PCAP + 1 <= 2^SHB /\ \A p \in PS : p <= PCAP

W == (CL + 1) * 2^SHB          \* the machine word (code: 2^32)
Min2(a, b) == IF a < b THEN a ELSE b
Max2(a, b) == IF a > b THEN a ELSE b
Idx(a, b) == [i \in 1..(IF b >= a THEN b - a + 1 ELSE 0) |-> a + i - 1]

---------------------------------------------------------------------------
(* the code                                                                *)

\* finest_partition_order(size, min_part_size): floor(log2(size / mps)) and the trailing zeros
RECURSIVE Log2Floor(_)
Log2Floor(x) == IF x <= 1 THEN 0 ELSE 1 + Log2Floor(x \div 2)
RECURSIVE Tz(_)
Tz(x) == IF x % 2 = 1 THEN 0 ELSE 1 + Tz(x \div 2)
FinestCode(n, mps) == Min2(OCAP, Min2(Log2Floor(n \div mps), Tz(n)))

\* from_errors(errors, offset): lanes 0..PCAP, clamp after every chunk of UN errors and after the offset
Chunked(s) == [c \in 1..((Len(s) + UN - 1) \div UN) |-> SubSeq(s, (c - 1) * UN + 1, Min2(c * UN, Len(s)))]
FromErrors(errs, off) ==
  [p \in 0..PCAP |->
     LET acc == FoldLeft(LAMBDA a, ch : Min2((a + FoldLeft(LAMBDA b, e : b + (e \div 2^p), 0, ch)) % W, CL),
                         0, Chunked(errs))
     IN Min2((acc + off + Len(errs) * (p + 1)) % W, CL)]

\* minimizer(max_p): reduce_min of ((lane <= max_p ? entry : all-ones) << SHB) | lane, in one word
Pack(v, p) == ((v * 2^SHB) % W) + p
Minimizer(t, maxp) ==
  LET packed == {Pack(IF p <= maxp THEN t[p] ELSE W - 1, p) : p \in 0..PCAP}
      m      == CHOOSE x \in packed : \A y \in packed : x <= y
  IN [p |-> m % 2^SHB, bits |-> m \div 2^SHB]

\* merge(other, 4): lane-wise a + b - 4 in the word, no clamp
Merge(a, b) == [p \in 0..PCAP |-> (a[p] + b[p] - 4 + W) % W]
MergeAll(T) == [j \in 1..(Len(T) \div 2) |-> Merge(T[2 * j - 1], T[2 * j])]

\* eval_partitions: parameters and the (64-bit, never wrapping) sum of the minimisers
Eval(T, maxp) ==
  LET ms == [j \in 1..Len(T) |-> Minimizer(T[j], maxp)]
  IN [ps |-> [j \in 1..Len(T) |-> ms[j].p], bits |-> FoldLeft(LAMBDA a, j : a + ms[j].bits, 0, Idx(1, Len(T)))]

\* find(signal, warmup_length, max_p): finest tables, then merge down; a coarser order replaces the
\* best so far only when STRICTLY smaller
RECURSIVE Descend(_, _, _, _)
Descend(T, order, best, maxp) ==
  IF Len(T) = 1 THEN best
  ELSE LET T2 == MergeAll(T)
           e  == Eval(T2, maxp)
           b2 == IF e.bits < best.bits THEN [order |-> order - 1, ps |-> e.ps, bits |-> e.bits] ELSE best
       IN Descend(T2, order - 1, b2, maxp)

Find(errs, warm, maxp) ==
  LET n     == Len(errs)
      fo    == FinestCode(n, Max2(MP, warm))
      np    == 2^fo
      plen  == n \div np
      T     == [j \in 1..np |-> FromErrors(SubSeq(errs, Max2((j - 1) * plen, warm) + 1, j * plen), 4)]
      e     == Eval(T, maxp)
  IN Descend(T, fo, [order |-> fo, ps |-> e.ps, bits |-> e.bits], maxp)

---------------------------------------------------------------------------
(* the meaning, from first principles (RFC 9639 section 9.2.7)             *)

\* admissible orders: 2^o divides n, partitions hold at least max(MP, warm) samples
Admissible(n, warm) == {o \in 0..OCAP : n % 2^o = 0 /\ (n \div 2^o) >= Max2(MP, warm)}
FinestTrue(n, warm) == CHOOSE o \in Admissible(n, warm) : \A q \in Admissible(n, warm) : q <= o

\* bits written for partition j of 2^o with parameter p: 4-bit parameter + unary quotient, stop bit, p low bits
PartCost(errs, warm, o, j, p) ==
  LET plen == Len(errs) \div 2^o
  IN 4 + FoldLeft(LAMBDA a, i : a + (errs[i] \div 2^p) + 1 + p, 0, Idx(Max2((j - 1) * plen, warm) + 1, j * plen))
TrueCost(errs, warm, o, ps) == FoldLeft(LAMBDA a, j : a + PartCost(errs, warm, o, j, ps[j]), 0, Idx(1, 2^o))

PartMin(errs, warm, o, j, maxp) ==
  LET cs == {PartCost(errs, warm, o, j, p) : p \in 0..maxp} IN CHOOSE x \in cs : \A y \in cs : x <= y
OrderMin(errs, warm, o, maxp) == FoldLeft(LAMBDA a, j : a + PartMin(errs, warm, o, j, maxp), 0, Idx(1, 2^o))
\* the brute force proper (every assignment of parameters), used in the smallest scope to validate
\* the separable form OrderMin
BruteOrderMin(errs, warm, o, maxp) ==
  LET cs == {TrueCost(errs, warm, o, ps) : ps \in [1..2^o -> 0..maxp]} IN CHOOSE x \in cs : \A y \in cs : x <= y
TrueMin(errs, warm, maxp) ==
  LET cs == {OrderMin(errs, warm, o, maxp) : o \in Admissible(Len(errs), warm)} IN CHOOSE x \in cs : \A y \in cs : x <= y

---------------------------------------------------------------------------
(* the model: one state per input of the scope                             *)

VARIABLE inp
Init == \E n \in NS, w \in WS, mp \in PS :
          /\ n >= Max2(MP, w)
          /\ \E f \in [1..n -> EV] : inp = [errs |-> [i \in 1..n |-> IF i <= w THEN 0 ELSE f[i]], warm |-> w, maxp |-> mp]
Next == UNCHANGED inp
Spec == Init /\ [][Next]_inp

R == Find(inp.errs, inp.warm, inp.maxp)
Actual(r) == TrueCost(inp.errs, inp.warm, r.order, r.ps)

FinestAgrees == FinestCode(Len(inp.errs), Max2(MP, inp.warm)) = FinestTrue(Len(inp.errs), inp.warm)

Shape == \E r \in {R} : /\ r.order \in Admissible(Len(inp.errs), inp.warm)
                        /\ Len(r.ps) = 2^r.order /\ \A j \in 1..Len(r.ps) : r.ps[j] \in 0..inp.maxp

EmittedOptimal == \E r \in {R} : \E a \in {Actual(r)} :
                     a < CL => a = TrueMin(inp.errs, inp.warm, inp.maxp)
BitsHonest == \E r \in {R} : \E a \in {Actual(r)} : a < CL => r.bits = a
NeverBelowTruth == R.bits <= TrueMin(inp.errs, inp.warm, inp.maxp)

\* among equal costs: the finest order, and in every partition the smallest parameter
TieRule == \E r \in {R} : \E a \in {Actual(r)} :
   a < CL =>
     /\ \A o \in Admissible(Len(inp.errs), inp.warm) : OrderMin(inp.errs, inp.warm, o, inp.maxp) = a => o <= r.order
     /\ \A j \in 1..Len(r.ps) : \A p \in 0..inp.maxp :
          PartCost(inp.errs, inp.warm, r.order, j, p) = PartCost(inp.errs, inp.warm, r.order, j, r.ps[j]) => r.ps[j] <= p

\* the separable minimum is the brute-force minimum (smallest scope only: 2^o-fold product)
Separable == \A o \in Admissible(Len(inp.errs), inp.warm) :
               OrderMin(inp.errs, inp.warm, o, inp.maxp) = BruteOrderMin(inp.errs, inp.warm, o, inp.maxp)

\* FALSE for the code as written (RiceSearch_wrap.cfg): without the premise the choice can be far from optimal
Optimal == Actual(R) = TrueMin(inp.errs, inp.warm, inp.maxp)
=============================================================================
