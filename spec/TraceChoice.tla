----------------------------- MODULE TraceChoice -----------------------------
(***************************************************************************)
(* Binds EncoderChoice to the implementation.  One event = one block       *)
(* encoded through encode_fixed_size_frame under all 8 subsets of the      *)
(* switches that take part in a decision (harness/src/choice.rs).          *)
(*                                                                         *)
(*  "stereo": l, r, m, s = sizes of the four candidate subframes, measured *)
(*     independently (each channel as a mono frame, the side channel with  *)
(*     bps + 1); runs[1..8] = [ls, rs, ms, ch, b0, b1].  Every run must be *)
(*     what StereoPick / StereoSubs say.                                   *)
(*  "sub": runs[1..8] = [c, f, l, kind, bits].  V, F, L are read off the   *)
(*     runs with no / one switch; every run must be what SubPick says.     *)
(*                                                                         *)
(* These are conformance statements about HOW the encoder decides, not     *)
(* listed properties: a mismatch is reported as MODEL-DIVERGENCE.          *)
(***************************************************************************)
EXTENDS Naturals, Integers, Sequences, SequencesExt, FiniteSets, TLC, Json, IOUtils
CONSTANT MaxBits
VARIABLES sizes, done
INSTANCE EncoderChoice
Rec == ndJsonDeserialize(IOEnv.TRACE)
VARIABLE i
Ev == Rec[i]

Msg(c, t) == IF c THEN {} ELSE {t}
RunOf(e, c, f, l) == CHOOSE k \in 1..Len(e.runs) : e.runs[k].c = c /\ e.runs[k].f = f /\ e.runs[k].l = l

StereoProblems(e) ==
  UNION { LET run == e.runs[k]
              en  == [ls |-> run.ls, rs |-> run.rs, ms |-> run.ms]
              p   == StereoPick(en, e.l, e.r, e.m, e.s)
              sub == StereoSubs(p.ch, e.l, e.r, e.m, e.s)
          IN Msg(run.ch = p.ch, "run " \o ToString(k) \o ": channel assignment " \o ToString(run.ch) \o " but the rule picks " \o ToString(p.ch)
                                 \o " for sizes l/r/m/s = " \o ToString(<<e.l, e.r, e.m, e.s>>))
             \cup Msg(run.ch # p.ch \/ <<run.b0, run.b1>> = sub,
                      "run " \o ToString(k) \o ": subframe sizes " \o ToString(<<run.b0, run.b1>>) \o " but the candidates measured alone have " \o ToString(sub))
        : k \in 1..Len(e.runs) }
  \cup Msg(Len(e.runs) = 8, "8 runs expected")

VerbBits(n, bps) == 8 + n * bps
SubProblems(e) ==
  LET r0 == e.runs[RunOf(e, FALSE, FALSE, FALSE)]
      rf == e.runs[RunOf(e, FALSE, TRUE, FALSE)]
      rl == e.runs[RunOf(e, FALSE, FALSE, TRUE)]
      rc == e.runs[RunOf(e, TRUE, FALSE, FALSE)]
      V  == r0.bits
      F  == IF rf.kind = "fixed" THEN rf.bits ELSE NoCand
      L  == IF rl.kind = "lpc" THEN rl.bits ELSE NoCand
      C  == IF rc.kind = "constant" THEN rc.bits ELSE NoCand
  IN Msg(r0.kind = "verbatim" /\ V = VerbBits(e.n, e.bps), "with every switch off the subframe must be verbatim of 8 + n*bps bits")
     \cup Msg(rf.kind \in {"fixed", "verbatim"}, "fixed-only run emits " \o rf.kind)
     \cup Msg(rl.kind \in {"lpc", "verbatim"}, "lpc-only run emits " \o rl.kind)
     \cup Msg((rc.kind = "constant") <=> e.isconst, "constant-only run emits " \o rc.kind)
     \cup Msg(rc.kind = "constant" => rc.bits = 8 + e.bps, "constant subframe is 8 + bps bits")
     \cup UNION { LET run == e.runs[k]
                      sw == [c |-> run.c, f |-> run.f, l |-> run.l]
                      kind == SubPick(sw, e.isconst, e.n, V, F, L)
                  IN Msg(run.kind = kind, "run " \o ToString(k) \o " " \o ToString(sw) \o ": emits " \o run.kind \o " but the rule picks " \o kind
                                           \o " for V/F/L = " \o ToString(<<V, F, L>>))
                     \cup Msg(run.kind # kind \/ run.bits = SubBits(kind, C, V, F, L),
                              "run " \o ToString(k) \o ": " \o ToString(run.bits) \o " bits but the candidate measured alone has " \o ToString(SubBits(kind, C, V, F, L)))
                     \cup Msg(run.bits <= V \/ run.kind = "constant", "run " \o ToString(k) \o ": larger than verbatim")
                : k \in 1..Len(e.runs) }

\* "ladder": runs[1..5] = [j, kind, order, bits] for maximum fixed orders j = 0..4 (selection by bit count, no
\* constant / LPC candidates): the results must obey the ladder law of EncoderChoice
LadderProblems(e) ==
  LET V == VerbBits(e.n, e.bps)
      r == [j \in 0..4 |-> LET run == e.runs[j + 1] IN [kind |-> run.kind, order |-> run.order, bits |-> run.bits]]
  IN Msg(Len(e.runs) = 5 /\ \A j \in 0..4 : e.runs[j + 1].j = j, "5 runs expected")
     \cup Msg(\A j \in 0..4 : r[j].kind \in {"fixed", "verbatim"}, "a run emits neither a fixed nor a verbatim subframe")
     \cup Msg(e.n >= MinPredict \/ \A j \in 0..4 : r[j].kind = "verbatim", "prediction on a block shorter than 64 samples")
     \cup Msg(LadderOk(r, V), "results for maximum orders 0..4 " \o ToString([j \in 0..4 |-> <<r[j].kind, r[j].order, r[j].bits>>])
                              \o " break the ladder law (verbatim size " \o ToString(V) \o ")")

Problems(e) == IF e.ev = "stereo" THEN StereoProblems(e) ELSE IF e.ev = "ladder" THEN LadderProblems(e) ELSE SubProblems(e)
Join(S) == FoldSet(LAMBDA x, acc : acc \o x \o " ;; ", "", S)
TInit == i = 1 /\ sizes = [a |-> 0, b |-> 0, c |-> 0, d |-> 0] /\ done = TRUE
TStep ==
  /\ i <= Len(Rec) /\ i' = i + 1 /\ UNCHANGED <<sizes, done>>
  /\ \E pr \in {Problems(Ev)} :
       PrintT("VERDICT|" \o Ev.id \o (IF pr = {} THEN "|pass|" ELSE "|DIVERGED|" \o Join(pr)))
TSpec == TInit /\ [][TStep]_<<i, sizes, done>>
Consumed == \/ TLCGet("stats").diameter = Len(Rec) + 1
            \/ (PrintT(<<"UNCONSUMED", TLCGet("stats").diameter, Len(Rec)>>) /\ FALSE)
=============================================================================
