----------------------------- MODULE TraceHeader -----------------------------
(***************************************************************************)
(* C02, the three finite header code spaces: every (final) block length    *)
(* 1..32767, every sample rate 1..96000 and frame numbers over the 31-bit  *)
(* range (all of 0..69631, windows around every power of two and UTF-8     *)
(* length boundary, stratified random values) are pushed through the real  *)
(* frame-level entry point; each event carries the bytes of one tiny       *)
(* (constant) frame.  TLC parses the frame with FlacFormat and demands     *)
(* that it states exactly the block size, rate and number it was made for, *)
(* with canonical number coding, fixed-blocksize strategy bit, valid CRCs. *)
(***************************************************************************)
EXTENDS Naturals, Integers, Sequences, SequencesExt, FiniteSetsExt, TLC, Json, IOUtils, FlacFormat

Rec == ndJsonDeserialize(IOEnv.TRACE)
VARIABLES l, nbad
Ev == Rec[l]

Judge(e) ==
  IF e.outcome # "ok" THEN {"C02: encoding a frame of " \o ToString(e.bs) \o " samples at " \o ToString(e.rate) \o " Hz, number " \o ToString(e.num_lo) \o " failed: " \o e.outcome}
  ELSE UNION {
    IF ~f.ok THEN {"C02: frame for block size " \o ToString(e.bs) \o ", rate " \o ToString(e.rate) \o ", number " \o ToString(e.num_hi) \o "*2^24+" \o ToString(e.num_lo) \o " does not parse: " \o f.why}
    ELSE (IF f.n # e.bs THEN {"C02: header states block size " \o ToString(f.n) \o " for a block of " \o ToString(e.bs) \o " (code " \o ToString(f.bsCode) \o ")"} ELSE {}) \cup
         (IF ~(f.rateHdr = -1 \/ f.rateHdr = e.rate) THEN {"C02: header states sample rate " \o ToString(f.rateHdr) \o " for " \o ToString(e.rate) \o " (code " \o ToString(f.srCode) \o ")"} ELSE {}) \cup
         (IF f.num.hi # e.num_hi \/ f.num.lo # e.num_lo THEN {"C02: header states frame number " \o ToString(f.num.hi) \o "*2^24+" \o ToString(f.num.lo) \o " for " \o ToString(e.num_hi) \o "*2^24+" \o ToString(e.num_lo)} ELSE {}) \cup
         (IF ~f.num.canon THEN {"C02: frame number " \o ToString(e.num_lo) \o " not in shortest coding"} ELSE {}) \cup
         (IF f.strategy # 0 \/ f.resv1 # 0 \/ f.resv2 # 0 THEN {"C02: strategy / reserved bits set"} ELSE {}) \cup
         (IF f.nch # 1 \/ f.bps # 8 THEN {"C02: channel / sample-size code wrong"} ELSE {}) \cup
         (IF ~f.padOk THEN {"C02: padding not zero"} ELSE {}) \cup
         (IF f.next # Len(e.bytes) THEN {"C02: bytes after the frame"} ELSE {}) \cup
         (IF f.decoded # << [i \in 1..e.bs |-> e.dc] >> THEN {"C01: frame does not decode to the block it was made from"} ELSE {})
    : f \in {ParseFrame(e.bytes, 0, 8)} }

\* only failing events are printed (there are > 100 000 events); the tally is printed at the end
Step ==
  /\ l <= Len(Rec) /\ l' = l + 1
  /\ \E bad \in {Judge(Ev)} :
       /\ nbad' = nbad + (IF bad = {} THEN 0 ELSE 1)
       /\ (bad = {} \/ PrintT("VERDICT|" \o Ev.id \o "|FAIL|" \o FoldSet(LAMBDA x, a : a \o x \o " ;; ", "", bad)))
  /\ (l < Len(Rec) \/ PrintT("TALLY|" \o ToString(Len(Rec)) \o "|" \o ToString(nbad')))
Init == l = 1 /\ nbad = 0
Spec == Init /\ [][Step]_<<l, nbad>>
Consumed == \/ TLCGet("stats").diameter = Len(Rec) + 1
            \/ (PrintT(<<"UNCONSUMED", TLCGet("stats").diameter, Len(Rec)>>) /\ FALSE)
=============================================================================
