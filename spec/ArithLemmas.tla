---------------------------- MODULE ArithLemmas ----------------------------
(***************************************************************************)
(* Unbounded versions (all integers) of two lemmas that Schemes.tla checks *)
(* with TLC over a finite range, proved with the TLA+ proof system         *)
(* (tlapm, SMT back end).  The definitions are the ones of FlacFormat /    *)
(* Schemes, restated here because the proof manager cannot load modules    *)
(* that use TLC-only operators.                                            *)
(***************************************************************************)
EXTENDS Integers, TLAPS

Fold(v)   == IF v >= 0 THEN 2 * v ELSE -2 * v - 1
Unfold(u) == IF u % 2 = 0 THEN u \div 2 ELSE -((u + 1) \div 2)

\* the zig-zag map of Rice coding is a bijection Int <-> Nat
THEOREM FoldNat == \A v \in Int : Fold(v) \in Nat
  BY DEF Fold
THEOREM UnfoldFold == \A v \in Int : Unfold(Fold(v)) = v
  BY DEF Fold, Unfold
THEOREM FoldUnfold == \A u \in Nat : Fold(Unfold(u)) = u
  BY DEF Fold, Unfold

\* mid/side coding is invertible although the mid channel drops a bit
Mid(l, r)  == (l + r) \div 2
Side(l, r) == l - r
UnLeft(m, s)  == ((2 * m + (s % 2)) + s) \div 2
UnRight(m, s) == ((2 * m + (s % 2)) - s) \div 2
LEMMA DivMod2a == \A a \in Int : a = 2 * (a \div 2) + (a % 2)
  OBVIOUS
LEMMA DivMod2b == \A a \in Int : a % 2 = 0 \/ a % 2 = 1
  OBVIOUS
LEMMA SameParity == \A l, r \in Int : (l - r) % 2 = (l + r) % 2
  OBVIOUS
THEOREM MidSideInvertible ==
  \A l, r \in Int : UnLeft(Mid(l, r), Side(l, r)) = l /\ UnRight(Mid(l, r), Side(l, r)) = r
<1> TAKE l, r \in Int
<1> DEFINE a == l + r
<1> DEFINE m == a \div 2
<1> DEFINE s == l - r
<1>1. a = 2 * m + (a % 2) /\ (a % 2 = 0 \/ a % 2 = 1)
  BY DivMod2a, DivMod2b
<1>2. s % 2 = a % 2
  BY SameParity
<1>3. 2 * m + (s % 2) = a
  BY <1>1, <1>2
<1>4. (a + s) \div 2 = l /\ (a - s) \div 2 = r
  OBVIOUS
<1> QED
  BY <1>3, <1>4 DEF Mid, Side, UnLeft, UnRight

\* two's complement fields of any width: M = 2H is the modulus 2^n, H = 2^(n-1)
Enc2c(v, H) == IF v < 0 THEN v + 2 * H ELSE v
Dec2c(u, H) == IF u >= H THEN u - 2 * H ELSE u
THEOREM TwoComplement ==
  \A H \in Nat \ {0} : \A v \in Int : (-H <= v /\ v < H) =>
      (Enc2c(v, H) \in Nat /\ Enc2c(v, H) < 2 * H /\ Dec2c(Enc2c(v, H), H) = v)
  BY DEF Enc2c, Dec2c

\* the Rice split of a folded value into quotient and remainder (p = 2^k, any positive p)
THEOREM RiceSplit ==
  \A p \in Nat \ {0} : \A u \in Nat : u = (u \div p) * p + (u % p) /\ u % p >= 0 /\ u % p < p
  OBVIOUS

\* left/side and right/side
THEOREM LeftSideInvertible == \A l, r \in Int : l - (l - r) = r
  OBVIOUS
THEOREM RightSideInvertible == \A l, r \in Int : (l - r) + r = l
  OBVIOUS
=============================================================================
