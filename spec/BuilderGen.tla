------------------------------ MODULE BuilderGen ------------------------------
(* Writes every call sequence of length 1..MaxLen over the assembly API's call alphabet to IOEnv.OUTB   *)
(* (one JSON object per line); harness/src/builder.rs replays them on a real Stream and TraceBuilder.tla *)
(* steps StreamBuilder's actions through the recorded calls.                                            *)
EXTENDS Naturals, Integers, Sequences, SequencesExt, FiniteSets, FiniteSetsExt, TLC, Json, IOUtils
CONSTANT MaxLen
BIG == 0 - 1
Call(op, a, b) == [op |-> op, a |-> a, b |-> b]
Alphabet ==
  { Call("frame", i, k) : i \in 1..3, k \in 0..2 } \cup        \* palette frame i with frame number k
  { Call("vframe", 1, k) : k \in {0, 32, 64} } \cup             \* variable-blocksize frame starting at sample k
  { Call("meta", i, 0) : i \in 1..2 } \cup
  { Call("bs", p[1], p[2]) : p \in { <<32, 64>>, <<64, 32>>, <<BIG, 64>>, <<64, BIG>>, <<40000, 40000>>, <<0, 0>>, <<16, 16>> } } \cup
  { Call("fs", p[1], p[2]) : p \in { <<10, 20>>, <<20, 10>>, <<BIG, 5>>, <<5, BIG>>, <<0, 0>> } } \cup
  { Call("total", n, 0) : n \in {0, 12345} }
Histories == UNION { [1..n -> Alphabet] : n \in 1..MaxLen }
ASSUME IOEnv.OUTB = "" \/ ndJsonSerialize(IOEnv.OUTB, SetToSeq({ [h |-> hh] : hh \in Histories }))
ASSUME PrintT(<<"GENERATED", Cardinality(Histories)>>)
VARIABLE x
Spec == x = 0 /\ [][UNCHANGED x]_x
=============================================================================
