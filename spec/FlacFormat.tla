----------------------------- MODULE FlacFormat -----------------------------
(***************************************************************************)
(* RFC 9639 (FLAC) as executable TLA+: STREAMINFO, frame header, the four  *)
(* subframe types, partitioned Rice residuals, predictor reconstruction in *)
(* exact integers and inter-channel decorrelation.  This module is the     *)
(* "independent, standards-conforming decoder" of property C01 and the     *)
(* "strict checker" of C02; TLC evaluates it on bytes emitted by the real  *)
(* encoder (TraceStream.tla).                                              *)
(*                                                                         *)
(* The decoder is lenient where the RFC is (wasted bits, escaped           *)
(* partitions, 5-bit Rice parameters are understood although flacenc never *)
(* emits them); strictness lives in separately named predicates.           *)
(***************************************************************************)
EXTENDS Naturals, Integers, Sequences, SequencesExt, FiniteSets, TLC, Bits, Crc

Max2(a, b) == IF a >= b THEN a ELSE b
Min2(a, b) == IF a <= b THEN a ELSE b

---------------------------------------------------------------------------
(* STREAMINFO and the metadata chain                                       *)

StreamHead(b) ==
  LET okLen == Len(b) >= 42
  IN IF ~okLen THEN [ok |-> FALSE] ELSE
  [ ok      |-> TRUE,
    magic   |-> b[1] = 102 /\ b[2] = 76 /\ b[3] = 97 /\ b[4] = 67,      \* "fLaC"
    last    |-> b[5] \div 128,
    type    |-> b[5] % 128,
    mlen    |-> b[6] * 65536 + b[7] * 256 + b[8],
    minbs   |-> GetU(b, 64, 16),
    maxbs   |-> GetU(b, 80, 16),
    minfs   |-> GetU(b, 96, 24),
    maxfs   |-> GetU(b, 120, 24),
    rate    |-> GetU(b, 144, 20),
    ch      |-> GetU(b, 164, 3) + 1,
    bps     |-> GetU(b, 167, 5) + 1,
    totHi   |-> GetU(b, 172, 12),          \* total samples = totHi * 2^24 + totLo
    totLo   |-> GetU(b, 184, 24),
    md5     |-> SubSeq(b, 27, 42) ]

\* Walks the metadata blocks; returns [ok, at (0-based byte offset of the first frame), blocks,
\* lastOk (exactly the final block carries the last-block flag), types]
RECURSIVE MetaWalk(_, _, _, _)
MetaWalk(b, at, count, types) ==
  IF at + 4 > Len(b) THEN [ok |-> FALSE, at |-> at, blocks |-> count, types |-> types]
  ELSE LET last == b[at + 1] \div 128
           type == b[at + 1] % 128
           len  == b[at + 2] * 65536 + b[at + 3] * 256 + b[at + 4]
           nxt  == at + 4 + len
       IN IF nxt > Len(b) THEN [ok |-> FALSE, at |-> at, blocks |-> count, types |-> types]
          ELSE IF last = 1 THEN [ok |-> TRUE, at |-> nxt, blocks |-> count + 1, types |-> Append(types, type)]
          ELSE MetaWalk(b, nxt, count + 1, Append(types, type))

Meta(b) == MetaWalk(b, 4, 0, <<>>)

---------------------------------------------------------------------------
(* Residual (RFC 9639 section 9.2.7)                                       *)

Unfold(u) == IF u % 2 = 0 THEN u \div 2 ELSE -((u + 1) \div 2)
Fold(v)   == IF v >= 0 THEN 2 * v ELSE -2 * v - 1

\* cnt Rice-coded values with parameter k starting at bit p
RicePart(b, p0, cnt, k, out0, qs0) ==
  FoldLeft(LAMBDA st, t :
     IF ~st.ok THEN st ELSE
     LET q == TLCEval(ZerosFrom(b, st.p))
     IN IF q < 0 \/ (k >= 1 /\ q >= 2^(31 - k)) THEN [st EXCEPT !.ok = FALSE]
        ELSE LET r == GetU(b, st.p + q + 1, k)
             IN [p |-> st.p + q + 1 + k, out |-> Append(st.out, Unfold(q * 2^k + r)),
                 qsum |-> st.qsum + q, ok |-> TRUE],
     [p |-> p0, out |-> out0, qsum |-> qs0, ok |-> TRUE], Idx(1, cnt))

RawPart(b, p0, cnt, w, out0, qs0) ==
  IF w > 30 THEN [p |-> p0, out |-> out0, qsum |-> qs0, ok |-> FALSE]
  ELSE [p |-> p0 + cnt * w,
        out |-> out0 \o [t \in 1..cnt |-> IF w = 0 THEN 0 ELSE GetS(b, p0 + (t - 1) * w, w)],
        qsum |-> qs0, ok |-> TRUE]

\* n = block size, ord = predictor order.  Result: [ok, p (end bit), out (residual values),
\* method, porder, params, escs, qsum (sum of unary quotients), start]
Residual(b, p0, n, ord) ==
  LET method == GetU(b, p0, 2)
      pbits  == IF method = 0 THEN 4 ELSE 5
      porder == GetU(b, p0 + 2, 4)
      nparts == 2^porder
      plen   == n \div nparts
      bad    == [ok |-> FALSE, p |-> p0, out |-> <<>>, method |-> method, porder |-> porder,
                 params |-> <<>>, escs |-> <<>>, raws |-> <<>>, qsum |-> 0, start |-> p0]
  IN IF method > 1 \/ (porder > 0 /\ n % nparts # 0) \/ plen < ord THEN bad
     ELSE LET r == FoldLeft(LAMBDA st, j :
                 IF ~st.ok THEN st ELSE
                 LET k   == GetU(b, st.p, pbits)
                     cnt == IF j = 1 THEN plen - ord ELSE plen
                     esc == k = 2^pbits - 1
                     res == IF esc THEN RawPart(b, st.p + pbits + 5, cnt, GetU(b, st.p + pbits, 5), st.out, st.qsum)
                                   ELSE RicePart(b, st.p + pbits, cnt, k, st.out, st.qsum)
                 IN [p |-> res.p, out |-> res.out, qsum |-> res.qsum, ok |-> res.ok,
                     params |-> Append(st.params, k), escs |-> Append(st.escs, esc),
                     raws |-> Append(st.raws, IF esc THEN GetU(b, st.p + pbits, 5) ELSE 0)],
                 [p |-> p0 + 6, out |-> <<>>, qsum |-> 0, ok |-> TRUE, params |-> <<>>, escs |-> <<>>, raws |-> <<>>],
                 Idx(1, nparts))
          IN [ok |-> r.ok, p |-> r.p, out |-> r.out, method |-> method, porder |-> porder,
              params |-> r.params, escs |-> r.escs, raws |-> r.raws, qsum |-> r.qsum, start |-> p0]

---------------------------------------------------------------------------
(* Prediction (RFC 9639 sections 9.2.5, 9.2.6)                             *)

FixedCoef == << <<>>, <<1>>, <<2, -1>>, <<3, -3, 1>>, <<4, -6, 4, -1>> >>

\* ok = FALSE when a reconstructed sample leaves the 26-bit range (valid streams stay within 25
\* bits; the bound also keeps every product inside TLC's 32-bit integers)
SampleBound == 33554432         \* 2^25
RestoreFixed(warm, res, ord) ==
  LET c == FixedCoef[ord + 1]
  IN FoldLeft(LAMBDA st, e :
        IF ~st.ok THEN st ELSE
        LET s    == st.s
            t    == Len(s)
            pred == FoldLeft(LAMBDA a, j : a + c[j] * s[t + 1 - j], 0, Idx(1, ord))
            v    == e + pred
        IN IF v > SampleBound \/ v < -SampleBound \/ e > 2 * SampleBound * 16 \/ e < -(2 * SampleBound * 16)
           THEN [st EXCEPT !.ok = FALSE] ELSE [s |-> Append(s, v), ok |-> TRUE],
        [s |-> warm, ok |-> TRUE], res)

\* Quantised LPC: s[t] = e[t] + floor( sum_j coefs[j] * s[t-j] / 2^shift ).
\* 3-limb (8/8/rest) multiply-accumulate so that 32 taps x 15-bit coefficients x 26-bit
\* samples stay inside TLC's 32-bit integers.  ok = FALSE if a prediction leaves 2^30.
RestoreLpc(warm, res, coefs, shift) ==
  LET ord == Len(coefs)
  IN FoldLeft(LAMBDA st, e :
        IF ~st.ok THEN st ELSE
        LET s   == TLCEval(st.s)
            t   == Len(s)
            acc == FoldLeft(LAMBDA a, j :
                     LET x  == TLCEval(s[t + 1 - j])
                         x0 == x % 256
                         x1 == (x \div 256) % 256
                         x2 == x \div 65536
                     IN << a[1] + coefs[j] * x0, a[2] + coefs[j] * x1, a[3] + coefs[j] * x2 >>,
                     <<0, 0, 0>>, Idx(1, ord))
            a1  == acc[2] + (acc[1] \div 256)
            r0  == acc[1] % 256
            a2  == acc[3] + (a1 \div 256)
            r1  == a1 % 256
            low == r1 * 256 + r0
            fits == IF shift >= 16 THEN TRUE ELSE (a2 < 2^(14 + shift) /\ a2 > -(2^(14 + shift)))
            pred == IF shift >= 16 THEN a2 \div 2^(shift - 16)
                    ELSE a2 * 2^(16 - shift) + (low \div 2^shift)
        IN IF ~fits THEN [st EXCEPT !.ok = FALSE]
           ELSE IF pred > 1073741823 \/ pred < -1073741823 \/ e > 1073741823 \/ e < -1073741823
                   \/ e + pred > SampleBound \/ e + pred < -SampleBound THEN [st EXCEPT !.ok = FALSE]
           ELSE [s |-> Append(s, e + pred), ok |-> TRUE],
        [s |-> warm, ok |-> TRUE], res)

---------------------------------------------------------------------------
(* Subframe (RFC 9639 section 9.2)                                         *)

NoRes == [ok |-> TRUE, p |-> 0, out |-> <<>>, method |-> 0, porder |-> 0, params |-> <<>>,
          escs |-> <<>>, raws |-> <<>>, qsum |-> 0, start |-> 0]

SubBad(p, why) ==
  [ok |-> FALSE, why |-> why, kind |-> "bad", order |-> 0, wasted |-> 0, pad |-> 0, ebps |-> 0,
   start |-> p, end |-> p, samples |-> <<>>, res |-> NoRes, prec |-> 0, shift |-> 0, coefs |-> <<>>,
   warm |-> <<>>, type |-> 0]

\* n = block size, sbps = sample width of this channel (side channels: +1); with decode = FALSE only the
\* structure is parsed (no signal reconstruction: `samples` stays empty), which is what applies to
\* components built by hand from arbitrary residuals
ParseSubG(b, p, n, sbps, decode) ==
  LET pad    == GetU(b, p, 1)
      type   == GetU(b, p + 1, 6)
      wflag  == GetU(b, p + 7, 1)
      wz     == IF wflag = 1 THEN ZerosFrom(b, p + 8) ELSE 0
      wasted == IF wflag = 1 THEN wz + 1 ELSE 0
      p1     == p + 8 + wasted
      ebps   == sbps - wasted
      shl(x) == x * 2^wasted
      base   == [ok |-> TRUE, why |-> "", kind |-> "", order |-> 0, wasted |-> wasted, pad |-> pad,
                 ebps |-> ebps, start |-> p, end |-> p, samples |-> <<>>, res |-> NoRes, prec |-> 0,
                 shift |-> 0, coefs |-> <<>>, warm |-> <<>>, type |-> type]
  IN IF wz < 0 \/ ebps < 1 \/ ebps > 30 THEN SubBad(p, "wasted bits / sample width out of range")
     ELSE IF type = 0 THEN
       LET v == GetS(b, p1, ebps)
       IN [base EXCEPT !.kind = "constant", !.end = p1 + ebps, !.samples = [i \in 1..n |-> shl(v)]]
     ELSE IF type = 1 THEN
       [base EXCEPT !.kind = "verbatim", !.end = p1 + n * ebps,
                    !.samples = [i \in 1..n |-> shl(GetS(b, p1 + (i - 1) * ebps, ebps))]]
     ELSE IF type >= 8 /\ type <= 12 THEN
       LET ord  == type - 8
       IN IF ord > n THEN SubBad(p, "fixed order above block size") ELSE
          LET warm == [i \in 1..ord |-> GetS(b, p1 + (i - 1) * ebps, ebps)]
              r    == TLCEval(Residual(b, p1 + ord * ebps, n, ord))
          IN IF ~r.ok THEN SubBad(p, "residual of fixed subframe undecodable") ELSE
             LET s == IF decode THEN TLCEval(RestoreFixed(warm, r.out, ord)) ELSE [s |-> [i \in 1..n |-> 0], ok |-> TRUE]
             IN IF ~s.ok THEN SubBad(p, "fixed prediction leaves the sample range") ELSE
                [base EXCEPT !.kind = "fixed", !.order = ord, !.end = r.p, !.res = r, !.warm = warm,
                             !.samples = [i \in 1..n |-> shl(s.s[i])]]
     ELSE IF type >= 32 THEN
       LET ord == type - 31
       IN IF ord > n THEN SubBad(p, "LPC order above block size") ELSE
          LET warm  == [i \in 1..ord |-> GetS(b, p1 + (i - 1) * ebps, ebps)]
              pq    == p1 + ord * ebps
              pcode == GetU(b, pq, 4)
              prec  == pcode + 1
              shift == GetS(b, pq + 4, 5)
              coefs == [j \in 1..ord |-> GetS(b, pq + 9 + (j - 1) * prec, prec)]
              r     == TLCEval(Residual(b, pq + 9 + ord * prec, n, ord))
          IN IF pcode = 15 THEN SubBad(p, "invalid coefficient precision code 1111")
             ELSE IF shift < 0 THEN SubBad(p, "negative LPC shift")
             ELSE IF ~r.ok THEN SubBad(p, "residual of LPC subframe undecodable") ELSE
             LET s == IF decode THEN TLCEval(RestoreLpc(warm, r.out, coefs, shift)) ELSE [s |-> [i \in 1..n |-> 0], ok |-> TRUE]
             IN IF ~s.ok THEN SubBad(p, "LPC prediction leaves the sample range") ELSE
                [base EXCEPT !.kind = "lpc", !.order = ord, !.end = r.p, !.res = r, !.warm = warm,
                             !.prec = prec, !.shift = shift, !.coefs = coefs,
                             !.samples = [i \in 1..n |-> shl(s.s[i])]]
     ELSE SubBad(p, "reserved subframe type")

ParseSub(b, p, n, sbps) == ParseSubG(b, p, n, sbps, TRUE)
ParseSubStruct(b, p, n, sbps) == ParseSubG(b, p, n, sbps, FALSE)

---------------------------------------------------------------------------
(* Frame (RFC 9639 section 9)                                              *)

RateOfCode == << -1, 88200, 176400, 192000, 8000, 16000, 22050, 24000, 32000, 44100, 48000, 96000 >>

FrameBad(at, why) == [ok |-> FALSE, why |-> why, at |-> at]

\* Frame header at 0-based byte offset `at`; sBps: sample width from STREAMINFO (for code 000).
\* [ok, why, ..fields.., hdrLen (bytes incl. CRC-8), bodyAt (bit position of the first subframe)]
ParseHeader(b, at, sBps) ==
  IF at + 6 > Len(b) THEN FrameBad(at, "fewer than 6 bytes left") ELSE
  LET p0       == at * 8
      sync     == GetU(b, p0, 14)
      resv1    == GetU(b, p0 + 14, 1)
      strategy == GetU(b, p0 + 15, 1)
      bsCode   == GetU(b, p0 + 16, 4)
      srCode   == GetU(b, p0 + 20, 4)
      chCode   == GetU(b, p0 + 24, 4)
      bpsCode  == GetU(b, p0 + 28, 3)
      resv2    == GetU(b, p0 + 31, 1)
      num      == Utf8Dec(b, at + 5)
      o1       == at + 4 + num.len
      bsExtra  == IF bsCode = 6 THEN 1 ELSE IF bsCode = 7 THEN 2 ELSE 0
      n        == IF bsCode = 0 THEN 0 ELSE IF bsCode = 1 THEN 192
                  ELSE IF bsCode <= 5 THEN 576 * 2^(bsCode - 2)
                  ELSE IF bsCode = 6 THEN ByteAt(b, o1 + 1) + 1
                  ELSE IF bsCode = 7 THEN ByteAt(b, o1 + 1) * 256 + ByteAt(b, o1 + 2) + 1
                  ELSE 256 * 2^(bsCode - 8)
      o2       == o1 + bsExtra
      srExtra  == IF srCode = 12 THEN 1 ELSE IF srCode \in {13, 14} THEN 2 ELSE 0
      rateHdr  == IF srCode <= 11 THEN RateOfCode[srCode + 1]
                  ELSE IF srCode = 12 THEN ByteAt(b, o2 + 1) * 1000
                  ELSE IF srCode = 13 THEN ByteAt(b, o2 + 1) * 256 + ByteAt(b, o2 + 2)
                  ELSE IF srCode = 14 THEN (ByteAt(b, o2 + 1) * 256 + ByteAt(b, o2 + 2)) * 10
                  ELSE -2
      o3       == o2 + srExtra
      crc8ok   == o3 + 1 <= Len(b) /\ Crc8(b, at + 1, o3) = ByteAt(b, o3 + 1)
      nch      == IF chCode < 8 THEN chCode + 1 ELSE IF chCode <= 10 THEN 2 ELSE 0
      bps      == CASE bpsCode = 0 -> sBps [] bpsCode = 1 -> 8 [] bpsCode = 2 -> 12 [] bpsCode = 3 -> 0
                    [] bpsCode = 4 -> 16 [] bpsCode = 5 -> 20 [] bpsCode = 6 -> 24 [] bpsCode = 7 -> 32
  IN IF sync # 16382 THEN FrameBad(at, "no sync code")
     ELSE IF ~num.ok THEN FrameBad(at, "malformed coded number")
     ELSE IF bsCode = 0 \/ srCode = 15 \/ nch = 0 \/ bps = 0 THEN FrameBad(at, "reserved header code")
     ELSE IF ~crc8ok THEN FrameBad(at, "header CRC-8 mismatch")
     ELSE [ok |-> TRUE, why |-> "", at |-> at, resv1 |-> resv1, strategy |-> strategy, bsCode |-> bsCode,
           srCode |-> srCode, chCode |-> chCode, bpsCode |-> bpsCode, resv2 |-> resv2, num |-> num, n |-> n,
           rateHdr |-> rateHdr, nch |-> nch, bps |-> bps, hdrLen |-> o3 + 1 - at, bodyAt |-> (o3 + 1) * 8]

\* at: 0-based byte offset of the frame; sBps: sample width from STREAMINFO (for code 000)
ParseFrame(b, at, sBps) ==
  LET h == TLCEval(ParseHeader(b, at, sBps)) IN
  IF ~h.ok THEN h ELSE
  LET n       == h.n
      chCode  == h.chCode
      nch     == h.nch
      side(c) == (chCode = 8 /\ c = 2) \/ (chCode = 9 /\ c = 1) \/ (chCode = 10 /\ c = 2)
      subsR == FoldLeft(LAMBDA st, c :
                    IF ~st.ok THEN st ELSE
                    LET s == TLCEval(ParseSub(b, st.p, n, h.bps + (IF side(c) THEN 1 ELSE 0)))
                    IN [p |-> s.end, ok |-> s.ok, why |-> s.why, subs |-> Append(st.subs, s)],
                    [p |-> h.bodyAt, ok |-> TRUE, why |-> "", subs |-> <<>>], Idx(1, nch))
  IN IF ~subsR.ok THEN FrameBad(at, subsR.why) ELSE
        LET pend    == subsR.p
            aligned == ((pend + 7) \div 8) * 8
            padOk   == GetU(b, pend, aligned - pend) = 0
            fend    == aligned \div 8                       \* 0-based offset of the CRC-16
            crc16ok == fend + 2 <= Len(b) /\
                       Crc16(b, at + 1, fend) = ByteAt(b, fend + 1) * 256 + ByteAt(b, fend + 2)
            subs    == subsR.subs
            chan(c) == subs[c].samples
            dec     == IF chCode < 8 THEN [c \in 1..nch |-> chan(c)]
                       ELSE IF chCode = 8 THEN << chan(1), [i \in 1..n |-> chan(1)[i] - chan(2)[i]] >>
                       ELSE IF chCode = 9 THEN << [i \in 1..n |-> chan(1)[i] + chan(2)[i]], chan(2) >>
                       ELSE LET m2(i) == 2 * chan(1)[i] + (chan(2)[i] % 2)
                            IN << [i \in 1..n |-> (m2(i) + chan(2)[i]) \div 2],
                                  [i \in 1..n |-> (m2(i) - chan(2)[i]) \div 2] >>
        IN IF ~crc16ok THEN FrameBad(at, "frame CRC-16 mismatch") ELSE
           [ok |-> TRUE, why |-> "", at |-> at, next |-> fend + 2, len |-> fend + 2 - at,
            resv1 |-> h.resv1, strategy |-> h.strategy, bsCode |-> h.bsCode, srCode |-> h.srCode,
            chCode |-> chCode, bpsCode |-> h.bpsCode, resv2 |-> h.resv2, num |-> h.num, n |-> n,
            rateHdr |-> h.rateHdr, nch |-> nch, bps |-> h.bps, hdrLen |-> h.hdrLen,
            subs |-> subs, padOk |-> padOk, padBits |-> aligned - pend, decoded |-> dec]

---------------------------------------------------------------------------
(* C02: well-formedness of one frame against STREAMINFO and the request.   *)
(* Returns the set of violated clauses (empty = well formed).              *)

\* is `code` a valid way of announcing block size n / rate r ?  (the RFC allows any of them)
BlockSizeAgrees(f) == f.n >= 1
RateAgrees(f, rate) == f.rateHdr = -1 \/ f.rateHdr = rate

SubWf(s, n) ==
  (IF s.pad # 0 THEN {"subframe padding bit set"} ELSE {}) \cup
  (IF s.kind \in {"fixed", "lpc"} /\ s.order >= n /\ n > 0 /\ ~(s.order = 0) THEN {"predictor order not below block size"} ELSE {}) \cup
  (IF s.kind = "lpc" /\ (s.prec < 1 \/ s.prec > 15) THEN {"coefficient precision out of range"} ELSE {}) \cup
  (IF s.kind = "lpc" /\ s.shift < 0 THEN {"negative shift"} ELSE {}) \cup
  (IF s.kind \in {"fixed", "lpc"} /\ s.res.method # 0 THEN {"Rice method is not 4-bit"} ELSE {}) \cup
  (IF s.kind \in {"fixed", "lpc"} /\ (\E k \in 1..Len(s.res.params) : s.res.params[k] > 14)
     THEN {"Rice parameter at or above the escape code"} ELSE {}) \cup
  (IF s.kind \in {"fixed", "lpc"} /\ s.res.porder > 0 /\ n % (2^s.res.porder) # 0
     THEN {"partition order does not divide the block"} ELSE {}) \cup
  (IF s.kind \in {"fixed", "lpc"} /\ (n \div 2^s.res.porder) < s.order
     THEN {"first partition shorter than the predictor order"} ELSE {})

FrameWf(f, info, k, isLast, reqBs) ==
  (IF f.resv1 # 0 \/ f.resv2 # 0 THEN {"reserved header bit set"} ELSE {}) \cup
  (IF f.strategy # 0 THEN {"variable-blocksize strategy bit in a fixed-blocksize stream"} ELSE {}) \cup
  (IF ~(f.num.hi = 0 /\ f.num.lo = k) THEN {"frame number is not the frame index"} ELSE {}) \cup
  (IF ~f.num.canon THEN {"frame number not in canonical (shortest) coding"} ELSE {}) \cup
  (IF ~RateAgrees(f, info.rate) THEN {"sample-rate code disagrees with STREAMINFO"} ELSE {}) \cup
  (IF f.nch # info.ch THEN {"channel assignment disagrees with STREAMINFO"} ELSE {}) \cup
  (IF f.bps # info.bps THEN {"sample-size code disagrees with STREAMINFO"} ELSE {}) \cup
  (IF f.bpsCode = 7 THEN {"32-bit sample size code in a <=24-bit stream"} ELSE {}) \cup
  (IF ~f.padOk THEN {"non-zero padding bits"} ELSE {}) \cup
  (IF ~isLast /\ f.n # reqBs THEN {"non-final frame does not hold the requested block size"} ELSE {}) \cup
  (IF isLast /\ f.n > reqBs THEN {"final frame longer than the block size"} ELSE {}) \cup
  (IF f.n > info.maxbs THEN {"block longer than STREAMINFO max block size"} ELSE {}) \cup
  UNION { SubWf(f.subs[c], f.n) : c \in 1..f.nch }

---------------------------------------------------------------------------
(* C08: size of components from their structure                             *)

\* bits of a residual from its structure (section 9.2.7): 2 + 4 + per partition (4|5 [+5]) + codes
ResidualSize(r, n, ord) ==
  LET pbits == IF r.method = 0 THEN 4 ELSE 5
      np    == 2^r.porder
      plen  == n \div np
      cnt(j) == IF j = 1 THEN plen - ord ELSE plen
  IN 6 + FoldLeft(LAMBDA a, j :
           a + pbits + (IF r.escs[j] THEN 5 + cnt(j) * r.raws[j] ELSE cnt(j) * (r.params[j] + 1)), 0, Idx(1, np))
       + r.qsum

SubSize(s, n) ==
  8 + s.wasted +
  ( CASE s.kind = "constant" -> s.ebps
      [] s.kind = "verbatim" -> n * s.ebps
      [] s.kind = "fixed"    -> s.order * s.ebps + ResidualSize(s.res, n, s.order)
      [] s.kind = "lpc"      -> s.order * s.ebps + 9 + s.order * s.prec + ResidualSize(s.res, n, s.order) )

HeaderSize(f) ==
  32 + 8 * f.num.len + (IF f.bsCode = 6 THEN 8 ELSE IF f.bsCode = 7 THEN 16 ELSE 0)
     + (IF f.srCode = 12 THEN 8 ELSE IF f.srCode \in {13, 14} THEN 16 ELSE 0) + 8

FrameSize(f) ==
  LET body == HeaderSize(f) + FoldLeft(LAMBDA a, c : a + SubSize(f.subs[c], f.n), 0, Idx(1, f.nch))
  IN ((body + 7) \div 8) * 8 + 16

---------------------------------------------------------------------------
(* C09: size of the same block stored verbatim with independent channels   *)
VerbatimFrameBits(f, nch, bps) ==
  LET body == HeaderSize(f) + nch * (8 + bps * f.n)
  IN ((body + 7) \div 8) * 8 + 16

---------------------------------------------------------------------------
(* C13: brute-force optimum of the partitioned Rice code over the encoder's *)
(* search space: partition orders 0..Finest(n, ord), parameters 0..maxp.    *)

MinPartition == 64
\* largest order o such that 2^o divides n and n / 2^o >= max(MinPartition, ord)
RECURSIVE FinestFrom(_, _, _)
FinestFrom(n, lim, o) ==
  IF n % 2^(o + 1) = 0 /\ (n \div 2^(o + 1)) >= lim /\ o + 1 <= 15 THEN FinestFrom(n, lim, o + 1) ELSE o
Finest(n, ord) == FinestFrom(n, Max2(MinPartition, ord), 0)

Sat == 536870912            \* 2^29: saturating sums keep TLC integers in range
SAdd(a, b) == IF a + b >= Sat THEN Sat ELSE a + b

\* cost table of the finest partitions: T[j][k+1] = bits of partition j with parameter k
FinestTables(res, n, ord, maxp) ==
  LET fo   == Finest(n, ord)
      np   == 2^fo
      plen == n \div np
      \* res holds n - ord values; value index of sample t (1-based, t > ord) is t - ord
      part(j) == LET a == Max2((j - 1) * plen + 1, ord + 1)  z == j * plen
                 IN [i \in 1..(IF z >= a THEN z - a + 1 ELSE 0) |-> Fold(res[a + i - 1 - ord])]
  IN [j \in 1..np |->
        LET u == TLCEval(part(j))
        IN [kk \in 1..(maxp + 1) |->
              FoldLeft(LAMBDA a, x : SAdd(a, (x \div 2^(kk - 1)) + kk), 0, u)]]

\* merge pairwise: tables of order o-1 from tables of order o
MergeTables(T) == [j \in 1..(Len(T) \div 2) |-> [kk \in 1..Len(T[1]) |-> SAdd(T[2 * j - 1][kk], T[2 * j][kk])]]

MinOf(row) == FoldLeft(LAMBDA a, x : Min2(a, x), Sat, row)

\* total cost of coding with the given tables: 4 bits per partition + best parameter each
CostOf(T) == FoldLeft(LAMBDA a, j : SAdd(a, 4 + MinOf(T[j])), 6, Idx(1, Len(T)))

RECURSIVE BestCost(_, _)
BestCost(T, best) ==
  LET c == CostOf(T)
      b == Min2(best, c)
  IN IF Len(T) = 1 THEN b ELSE BestCost(MergeTables(T), b)

RiceOptimum(res, n, ord, maxp) == BestCost(FinestTables(res, n, ord, maxp), Sat)

\* The choice the search of src/rice.rs makes among equal costs (RiceSearch.tla, invariant TieRule, model-checked
\* against the code as written): the FINEST order among the cheapest, in every partition the SMALLEST parameter.
\* [cost, order, params]; cost = RiceOptimum.
ArgMinRow(row) == LET m == MinOf(row) IN CHOOSE kk \in 1..Len(row) : row[kk] = m /\ \A q \in 1..(kk - 1) : row[q] # m
RECURSIVE BestChoice(_, _, _)
BestChoice(T, order, best) ==
  LET c == CostOf(T)
      b == IF c < best.cost THEN [cost |-> c, order |-> order, params |-> [j \in 1..Len(T) |-> ArgMinRow(T[j]) - 1]] ELSE best
  IN IF Len(T) = 1 THEN b ELSE BestChoice(MergeTables(T), order - 1, b)
RiceChoice(res, n, ord, maxp) ==
  BestChoice(FinestTables(res, n, ord, maxp), Finest(n, ord), [cost |-> Sat + 1, order |-> -1, params |-> <<>>])
=============================================================================
