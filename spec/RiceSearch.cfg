\* scaled-down scope of the code's constants: MP 64 -> 2, lanes 16 -> 4, clamp 2^28-1 -> 31, word 2^32 -> 128, unroll 16 -> 2
CONSTANTS
  MP = 2
  PCAP = 3
  SHB = 2
  CL = 31
  UN = 2
  OCAP = 15
  NS = {2, 3, 4, 6, 8}
  EV = {0, 1, 4, 13}
  WS = {0, 1, 2, 3}
  PS = {0, 1, 2, 3}
SPECIFICATION Spec
INVARIANTS FinestAgrees Shape EmittedOptimal BitsHonest NeverBelowTruth TieRule
CHECK_DEADLOCK FALSE
