SPECIFICATION Spec
CONSTANTS
  BS = 3
  MinBS = 2
  Lens = {0, 1, 2, 3, 4, 5, 6, 7, 8, 9, 10}
  FailAts = {0, 1, 2, 3, 4, 99}
  BadSets = {{}, {0}, {1}, {2}, {0, 2}, {1, 3}}
  Sizes = {1, 2, 3}
  Variant = "pinned"
INVARIANTS InfoTruth InfoBounds BlockShape SeqResultMatches
PROPERTIES Termination
CHECK_DEADLOCK FALSE
