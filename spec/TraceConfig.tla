----------------------------- MODULE TraceConfig -----------------------------
(***************************************************************************)
(* C07 / C19: observations of the real library on the configuration        *)
(* vectors and TOML documents generated from Config.tla are judged here.   *)
(*   cfg : into_verified() accepted / rejected / panicked  vs  Valid(c)    *)
(*   doc : a document stating base's fields minus `omitted` parsed to      *)
(*         `parsed`  vs  Parse(Fields \ omitted, base); verification of    *)
(*         the parsed value vs verification of the in-memory equivalent    *)
(*   rt  : to_string then from_str of a configuration gives it back        *)
(***************************************************************************)
EXTENDS Config, Json, IOUtils, SequencesExt, FiniteSetsExt

CONSTANTS Par, Experimental
Rec == ndJsonDeserialize(IOEnv.TRACE)
VARIABLE l
Ev == Rec[l]

Out(id, bad) == PrintT("VERDICT|" \o id \o (IF bad = {} THEN "|pass|" ELSE "|FAIL|")
                       \o FoldSet(LAMBDA x, a : a \o x \o " ;; ", "", bad))

SetOf(s) == { s[i] : i \in 1..Len(s) }

Step ==
  /\ l <= Len(Rec) /\ l' = l + 1
  /\ CASE Ev.ev = "cfg" ->
            Out(Ev.id,
              IF Ev.panic THEN {"C07: verification panicked for " \o ToString(Ev.cfg)}
              ELSE IF Ev.accepted /\ ~Valid(Ev.cfg, Experimental)
                THEN {"C07: accepted although out of the documented range: " \o ToString(Rejects(Ev.cfg, Experimental))}
              ELSE IF ~Ev.accepted /\ Valid(Ev.cfg, Experimental)
                THEN {"C07: rejected although every field is in its documented range: " \o ToString(Ev.cfg)}
              ELSE {})
       [] Ev.ev = "doc" ->
            LET want == Parse(Fields \ SetOf(Ev.omitted), Ev.base, Par) IN
            Out(Ev.id,
              (IF Ev.parse_err # "" THEN {"C19: document omitting " \o ToString(Ev.omitted) \o " does not parse: " \o Ev.parse_err}
               ELSE IF Ev.parsed # want
                 THEN {"C19: document omitting " \o ToString(Ev.omitted) \o " parsed to a configuration that differs from defaults-overridden in "
                       \o ToString({ f \in Fields : Ev.parsed[f] # want[f] })}
               ELSE {}) \cup
              (IF Ev.parse_err = "" /\ Ev.verdict_parsed # Ev.verdict_mem
                 THEN {"C19: verification of the parsed configuration differs from verification of the in-memory value"} ELSE {}))
       [] Ev.ev = "rt" ->
            Out(Ev.id,
              IF Ev.err # "" THEN {"C19: serialise/parse round trip failed: " \o Ev.err}
              ELSE IF Ev.back # Ev.cfg
                THEN {"C19: serialise/parse round trip changed " \o ToString({ f \in Fields : Ev.back[f] # Ev.cfg[f] })}
              ELSE {})

Init == l = 1
Spec == Init /\ [][Step]_l
Consumed == \/ TLCGet("stats").diameter = Len(Rec) + 1
            \/ (PrintT(<<"UNCONSUMED", TLCGet("stats").diameter, Len(Rec)>>) /\ FALSE)
=============================================================================
