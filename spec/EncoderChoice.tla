---------------------------- MODULE EncoderChoice ----------------------------
(***************************************************************************)
(* The decision rules of the frame encoder (coding.rs: encode_subframe,    *)
(* try_stereo_coding), as written: which alternative is emitted given the  *)
(* sizes of the candidates.  Sizes are abstract naturals here; what a      *)
(* candidate *is* is FlacFormat's business.                                *)
(*                                                                         *)
(* Subframe (one channel, n samples, verbatim size V):                     *)
(*   - constant, if the switch is on and all samples are equal;            *)
(*   - else the fixed candidate F is kept iff it exists, n >= 64 and F < V *)
(*     (actual size - this is the repair of the C09 defect);               *)
(*   - the LPC candidate L is kept iff it exists, n >= 64 and              *)
(*     L < min(V, kept F);  LPC beats fixed beats verbatim.                *)
(* Stereo (two channels): start from independent (L+R) and replace it, in  *)
(* the order left-side, right-side, mid-side, by an enabled alternative    *)
(* whose sum is STRICTLY smaller.                                          *)
(*                                                                         *)
(* Checked here (EncoderChoice.cfg, all sizes 0..MaxBits): the rules pick  *)
(* a minimum, never exceed verbatim / independent, are monotone in the     *)
(* switches and resolve ties towards the earlier alternative.              *)
(* TraceChoice.tla binds the rules to the implementation.                  *)
(***************************************************************************)
EXTENDS Naturals, Integers, FiniteSets, TLC

NoCand == 0 - 1                         \* "no candidate was produced"
MinPredict == 64                        \* MIN_BLOCK_SIZE_FOR_PREDICTION
Min2(a, b) == IF a < b THEN a ELSE b

\* ------------------------------------------------------------------ subframe
\* sw = [c, f, l] switches; isconst; n; V verbatim bits; F, L candidate bits or NoCand
FixedKept(sw, n, V, F) == n >= MinPredict /\ sw.f /\ F # NoCand /\ F < V
LpcKept(sw, n, V, F, L) ==
  LET base == IF FixedKept(sw, n, V, F) THEN Min2(V, F) ELSE V
  IN n >= MinPredict /\ sw.l /\ L # NoCand /\ L < base
SubPick(sw, isconst, n, V, F, L) ==
  IF sw.c /\ isconst THEN "constant"
  ELSE IF LpcKept(sw, n, V, F, L) THEN "lpc"
  ELSE IF FixedKept(sw, n, V, F) THEN "fixed"
  ELSE "verbatim"
SubBits(kind, C, V, F, L) ==
  CASE kind = "constant" -> C [] kind = "verbatim" -> V [] kind = "fixed" -> F [] kind = "lpc" -> L

\* ------------------------------------------------------------------ fixed predictor order (OrderSel::BitCount)
\* cost[o] = coded size with order o (o \in 0..4); with maximum order j the FIRST minimum over 0..j is taken
\* and kept iff it is below the verbatim size V.  Result: [kind, order, bits].
FixedArgMin(cost, j) == CHOOSE o \in 0..j : (\A p \in 0..j : cost[o] <= cost[p]) /\ (\A p \in 0..(o - 1) : cost[p] > cost[o])
FixedPick(cost, j, V) ==
  LET o == FixedArgMin(cost, j)
  IN IF cost[o] < V THEN [kind |-> "fixed", order |-> o, bits |-> cost[o]] ELSE [kind |-> "verbatim", order |-> 0, bits |-> V]
\* what can be said about the results r[0..4] for maximum orders 0..4 WITHOUT knowing the costs of the orders
\* that were never chosen (the ladder law): orders never exceed the maximum, sizes never grow, a result only
\* changes by moving to the newly admitted order with a STRICTLY smaller size
LadderOk(r, V) ==
  /\ \A j \in 0..4 : r[j].kind = "fixed" => (r[j].order <= j /\ r[j].bits < V)
  /\ \A j \in 0..4 : r[j].kind = "verbatim" => r[j].bits = V
  /\ \A j \in 0..3 :
       IF r[j].kind = "fixed"
       THEN r[j + 1].kind = "fixed" /\
            (r[j + 1] = r[j] \/ (r[j + 1].order = j + 1 /\ r[j + 1].bits < r[j].bits))
       ELSE r[j + 1].kind = "verbatim" \/ r[j + 1].order = j + 1

\* ------------------------------------------------------------------ stereo
\* en = [ls, rs, ms]; l, r, m, s: subframe sizes of left, right, mid, side
StereoStep(cur, on, ch, bits) == IF on /\ bits < cur.bits THEN [ch |-> ch, bits |-> bits] ELSE cur
StereoPick(en, l, r, m, s) ==
  StereoStep(StereoStep(StereoStep([ch |-> 1, bits |-> l + r], en.ls, 8, l + s), en.rs, 9, r + s), en.ms, 10, m + s)
\* the two subframes that are emitted for a channel-assignment code
StereoSubs(ch, l, r, m, s) ==
  CASE ch = 1 -> <<l, r>> [] ch = 8 -> <<l, s>> [] ch = 9 -> <<s, r>> [] ch = 10 -> <<m, s>>

\* ------------------------------------------------------------------ small-scope model
CONSTANT MaxBits
VARIABLES sizes, done
vars == <<sizes, done>>
Sw == [c : BOOLEAN, f : BOOLEAN, l : BOOLEAN]
En == [ls : BOOLEAN, rs : BOOLEAN, ms : BOOLEAN]
B == 0..MaxBits
Init == sizes \in [a : B, b : B, c : B, d : B] /\ done = FALSE
Next == done = FALSE /\ done' = TRUE /\ UNCHANGED sizes
Spec == Init /\ [][Next]_vars

EnSums(en, l, r, m, s) ==
  {l + r} \cup (IF en.ls THEN {l + s} ELSE {}) \cup (IF en.rs THEN {r + s} ELSE {}) \cup (IF en.ms THEN {m + s} ELSE {})
SetMin(S) == CHOOSE x \in S : \A y \in S : x <= y
Rank(ch) == CASE ch = 1 -> 0 [] ch = 8 -> 1 [] ch = 9 -> 2 [] ch = 10 -> 3
SumOf(ch, l, r, m, s) == StereoSubs(ch, l, r, m, s)[1] + StereoSubs(ch, l, r, m, s)[2]
Enabled(en, ch) == ch = 1 \/ (ch = 8 /\ en.ls) \/ (ch = 9 /\ en.rs) \/ (ch = 10 /\ en.ms)
Sub(en1, en2) == (en1.ls => en2.ls) /\ (en1.rs => en2.rs) /\ (en1.ms => en2.ms)

StereoOptimal ==
  LET l == sizes.a  r == sizes.b  m == sizes.c  s == sizes.d IN
  \A en \in En :
    LET p == StereoPick(en, l, r, m, s) IN
    /\ Enabled(en, p.ch)
    /\ p.bits = SumOf(p.ch, l, r, m, s)
    /\ p.bits = SetMin(EnSums(en, l, r, m, s))
    /\ p.bits <= l + r
    \* ties go to the alternative that comes first in the order independent, LS, RS, MS
    /\ \A ch \in {1, 8, 9, 10} : (Enabled(en, ch) /\ SumOf(ch, l, r, m, s) = p.bits) => Rank(p.ch) <= Rank(ch)
StereoMonotone ==
  LET l == sizes.a  r == sizes.b  m == sizes.c  s == sizes.d IN
  \A e1, e2 \in En : Sub(e1, e2) => StereoPick(e2, l, r, m, s).bits <= StereoPick(e1, l, r, m, s).bits

\* subframes: V = a + 1 (never 0), F = b or none, L = c or none; n either side of MinPredict
Cands(x) == {x, NoCand}
SubOptimal ==
  \A sw \in Sw, n \in {MinPredict - 1, MinPredict}, F \in Cands(sizes.b), L \in Cands(sizes.c) :
    LET V == sizes.a + 1
        k == SubPick(sw, FALSE, n, V, F, L)
        bits == SubBits(k, 0, V, F, L)
        avail == {V} \cup (IF sw.f /\ F # NoCand /\ n >= MinPredict THEN {F} ELSE {})
                     \cup (IF sw.l /\ L # NoCand /\ n >= MinPredict THEN {L} ELSE {})
    IN /\ bits <= V                              \* design-level C09: never above verbatim
       /\ bits = SetMin(avail)
       /\ (n < MinPredict => k = "verbatim")
       /\ (k = "verbatim" => \A y \in avail : y >= V)
       /\ (k = "fixed" => F < V /\ (sw.l /\ L # NoCand => L >= F))
SubMonotone ==
  \A s1, s2 \in Sw, n \in {MinPredict - 1, MinPredict}, F \in Cands(sizes.b), L \in Cands(sizes.c) :
    ((s1.f => s2.f) /\ (s1.l => s2.l)) =>
      LET V == sizes.a + 1 IN
      SubBits(SubPick(s2, FALSE, n, V, F, L), 0, V, F, L) <= SubBits(SubPick(s1, FALSE, n, V, F, L), 0, V, F, L)
\* the ladder law holds for every cost assignment (costs 0..MaxBits + 1, V from sizes.a + 1)
LadderSound ==
  \A cost \in [0..4 -> {sizes.a, sizes.b, sizes.c, sizes.d, sizes.a + sizes.b}] :
    LadderOk([j \in 0..4 |-> FixedPick(cost, j, sizes.c + 1)], sizes.c + 1)
ConstantRule ==
  \A sw \in Sw, F \in Cands(sizes.b), L \in Cands(sizes.c) :
    (SubPick(sw, TRUE, MinPredict, sizes.a + 1, F, L) = "constant") <=> sw.c
=============================================================================
