------------------------------ MODULE FlacWriter ------------------------------
(***************************************************************************)
(* The inverse direction of FlacFormat: component records -> bits -> bytes *)
(* (RFC 9639 sections 8-9), written from the RFC a second time.  Used for  *)
(*  (a) a model-level round-trip lemma  Parse(Write(c)) = c  over a small  *)
(*      exhaustive space that includes what flacenc never emits (wasted    *)
(*      bits, escaped partitions, the 5-bit Rice method, every channel     *)
(*      assignment, every block-size / sample-rate code kind) - this       *)
(*      checks the specification itself, which is the trusted base of      *)
(*      every trace check;                                                 *)
(*  (b) generating such streams for the library's parser (spec -> impl,    *)
(*      WriterGen.tla): it must never panic on them and must decode the    *)
(*      ones it accepts to what the RFC says.                              *)
(***************************************************************************)
EXTENDS Naturals, Integers, Sequences, SequencesExt, FiniteSets, TLC, Bits, Crc, FlacFormat

\* ------------------------------------------------------------------ bit strings
BitsU(v, n) == [i \in 1..n |-> (v \div 2^(n - i)) % 2]                     \* n-bit unsigned, MSB first
BitsS(v, n) == BitsU(IF v < 0 THEN v + 2^n ELSE v, n)                       \* n-bit two's complement
ZerosB(n) == [i \in 1..n |-> 0]
Unary(q) == ZerosB(q) \o <<1>>
Flat(ss) == FoldLeft(LAMBDA a, x : a \o x, <<>>, ss)
PackBytes(bits) ==                                                          \* zero-padded to whole bytes
  LET p == bits \o ZerosB((8 - (Len(bits) % 8)) % 8)
  IN [j \in 1..(Len(p) \div 8) |-> FoldLeft(LAMBDA a, i : 2 * a + p[i], 0, Idx(8 * (j - 1) + 1, 8 * j))]
BytesToBits(bs) == Flat([j \in 1..Len(bs) |-> BitsU(bs[j], 8)])

\* ------------------------------------------------------------------ residual
\* r = [method (0|1), porder, params (one per partition; 2^pbits-1 = escape), raw (bits per sample of escaped partitions)]
RiceCode(e, k) == LET u == Fold(e) IN Unary(u \div 2^k) \o BitsU(u % 2^k, k)
ResidualBits(vals, n, ord, r) ==
  LET pbits == IF r.method = 0 THEN 4 ELSE 5
      np    == 2^r.porder
      plen  == n \div np
      first(j) == IF j = 1 THEN 1 ELSE (j - 1) * plen - ord + 1               \* index into vals (1-based)
      cnt(j)   == IF j = 1 THEN plen - ord ELSE plen
      part(j)  == LET k == r.params[j] IN
                  IF k = 2^pbits - 1
                  THEN BitsU(k, pbits) \o BitsU(r.raw[j], 5) \o
                       Flat([t \in 1..cnt(j) |-> IF r.raw[j] = 0 THEN <<>> ELSE BitsS(vals[first(j) + t - 1], r.raw[j])])
                  ELSE BitsU(k, pbits) \o Flat([t \in 1..cnt(j) |-> RiceCode(vals[first(j) + t - 1], k)])
  IN BitsU(r.method, 2) \o BitsU(r.porder, 4) \o Flat([j \in 1..np |-> part(j)])

\* ------------------------------------------------------------------ subframes
\* s = [kind, wasted, samples (the channel's samples, before removing wasted bits), order, coefs, prec, shift, res]
FixedResidual(x, ord) ==
  LET c == FixedCoef[ord + 1]
  IN [t \in 1..(Len(x) - ord) |-> x[t + ord] - FoldLeft(LAMBDA a, j : a + c[j] * x[t + ord - j], 0, Idx(1, ord))]
LpcResidualOf(x, coefs, shift) ==
  LET ord == Len(coefs)
  IN [t \in 1..(Len(x) - ord) |->
        x[t + ord] - (FoldLeft(LAMBDA a, j : a + coefs[j] * x[t + ord - j], 0, Idx(1, ord)) \div 2^shift)]

SubframeBits(s, sbps) ==
  LET w    == s.wasted
      ebps == sbps - w
      x    == [i \in 1..Len(s.samples) |-> s.samples[i] \div 2^w]             \* samples with the wasted bits removed
      n    == Len(x)
      hdr(type) == <<0>> \o BitsU(type, 6) \o (IF w = 0 THEN <<0>> ELSE <<1>> \o Unary(w - 1))
  IN CASE s.kind = "constant" -> hdr(0) \o BitsS(x[1], ebps)
       [] s.kind = "verbatim" -> hdr(1) \o Flat([i \in 1..n |-> BitsS(x[i], ebps)])
       [] s.kind = "fixed" ->
            hdr(8 + s.order) \o Flat([i \in 1..s.order |-> BitsS(x[i], ebps)]) \o
            ResidualBits(FixedResidual(x, s.order), n, s.order, s.res)
       [] s.kind = "lpc" ->
            hdr(31 + s.order) \o Flat([i \in 1..s.order |-> BitsS(x[i], ebps)]) \o
            BitsU(s.prec - 1, 4) \o BitsS(s.shift, 5) \o Flat([j \in 1..s.order |-> BitsS(s.coefs[j], s.prec)]) \o
            ResidualBits(LpcResidualOf(x, s.coefs, s.shift), n, s.order, s.res)

\* ------------------------------------------------------------------ frame
\* f = [strategy, bsCode, srCode, chCode, bpsCode, numHi, numLo, n, rate, bps, subs]
BsExtra(f) == IF f.bsCode = 6 THEN BitsU(f.n - 1, 8) ELSE IF f.bsCode = 7 THEN BitsU(f.n - 1, 16) ELSE <<>>
SrExtra(f) == IF f.srCode = 12 THEN BitsU(f.rate \div 1000, 8)
              ELSE IF f.srCode = 13 THEN BitsU(f.rate, 16)
              ELSE IF f.srCode = 14 THEN BitsU(f.rate \div 10, 16) ELSE <<>>
FrameBytes(f) ==
  LET hbits == BitsU(16382, 14) \o <<0>> \o <<f.strategy>> \o BitsU(f.bsCode, 4) \o BitsU(f.srCode, 4) \o
               BitsU(f.chCode, 4) \o BitsU(f.bpsCode, 3) \o <<0>> \o
               BytesToBits(Utf8Enc(f.numHi, f.numLo)) \o BsExtra(f) \o SrExtra(f)
      hbytes == PackBytes(hbits)
      hcrc   == Crc8(hbytes, 1, Len(hbytes))
      side(c) == (f.chCode = 8 /\ c = 2) \/ (f.chCode = 9 /\ c = 1) \/ (f.chCode = 10 /\ c = 2)
      body   == Flat([c \in 1..Len(f.subs) |-> SubframeBits(f.subs[c], f.bps + (IF side(c) THEN 1 ELSE 0))])
      all    == hbytes \o <<hcrc>> \o PackBytes(body)
      fcrc   == Crc16(all, 1, Len(all))
  IN all \o << fcrc \div 256, fcrc % 256 >>

\* ------------------------------------------------------------------ stream
StreamInfoBytes(minbs, maxbs, minfs, maxfs, rate, ch, bps, total, last) ==
  << (IF last THEN 128 ELSE 0), 0, 0, 34 >> \o
  PackBytes(BitsU(minbs, 16) \o BitsU(maxbs, 16) \o BitsU(minfs, 24) \o BitsU(maxfs, 24) \o BitsU(rate, 20) \o
            BitsU(ch - 1, 3) \o BitsU(bps - 1, 5) \o BitsU(0, 12) \o BitsU(total, 24) \o ZerosB(128))
StreamBytes(frames, rate, ch, bps, bs, total) ==
  << 102, 76, 97, 67 >> \o StreamInfoBytes(bs, bs, 0, 0, rate, ch, bps, total, TRUE) \o Flat(frames)

\* ------------------------------------------------------------------ channel assignment (encoder side of un-mixing)
\* given left/right samples and a channel code, the two channels that are coded
CodedChannels(l, r, chCode) ==
  LET n == Len(l) IN
  IF chCode = 8 THEN << l, [i \in 1..n |-> l[i] - r[i]] >>
  ELSE IF chCode = 9 THEN << [i \in 1..n |-> l[i] - r[i]], r >>
  ELSE IF chCode = 10 THEN << [i \in 1..n |-> (l[i] + r[i]) \div 2], [i \in 1..n |-> l[i] - r[i]] >>
  ELSE << l, r >>
=============================================================================
