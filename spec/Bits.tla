------------------------------- MODULE Bits -------------------------------
(***************************************************************************)
(* MSB-first bit reader over a byte sequence, two's complement, unary      *)
(* codes and the UTF-8-style numbers of RFC 9639 section 9.1.5.            *)
(*                                                                         *)
(* Bytes are a sequence b of naturals 0..255 (1-based); a bit position p   *)
(* is 0-based, bit 0 is the most significant bit of b[1].  All values stay *)
(* below 2^31 (TLC integers are 32 bit); wider quantities are returned as  *)
(* <<hi, lo>> pairs with an explicit radix.                                *)
(***************************************************************************)
EXTENDS Naturals, Integers, Sequences, SequencesExt, TLC

Idx(a, b) == [k \in 1..(IF b >= a THEN b - a + 1 ELSE 0) |-> a + k - 1]

ByteAt(b, i) == IF i >= 1 /\ i <= Len(b) THEN b[i] ELSE 0

\* n in 0..16 bits starting at bit p
Get16(b, p, n) ==
  IF n = 0 THEN 0 ELSE
  LET i == p \div 8
      o == p % 8
      w == ByteAt(b, i + 1) * 65536 + ByteAt(b, i + 2) * 256 + ByteAt(b, i + 3)
  IN (w \div 2^(24 - o - n)) % 2^n

\* n in 0..30 bits
GetU(b, p, n) ==
  IF n <= 16 THEN Get16(b, p, n)
  ELSE Get16(b, p, n - 16) * 65536 + Get16(b, p + n - 16, 16)

TwoC(u, n) == IF n = 0 THEN 0 ELSE IF u >= 2^(n - 1) THEN u - 2^n ELSE u

\* signed n-bit field, n in 1..30
GetS(b, p, n) == TwoC(GetU(b, p, n), n)

\* number of significant bits of a byte value (0 for 0)
BitLen8(x) ==
  IF x >= 128 THEN 8 ELSE IF x >= 64 THEN 7 ELSE IF x >= 32 THEN 6 ELSE IF x >= 16 THEN 5
  ELSE IF x >= 8 THEN 4 ELSE IF x >= 4 THEN 3 ELSE IF x >= 2 THEN 2 ELSE IF x >= 1 THEN 1 ELSE 0

\* Length of the run of zero bits starting at bit p (the unary quotient of a Rice code);
\* -1 if the data ends, or the run is longer than MaxZeroBytes bytes, before a one bit.
MaxZeroBytes == 40000
RECURSIVE ZeroBytes(_, _, _)
ZeroBytes(b, i, acc) ==       \* i: 1-based index of the next byte to inspect
  IF i > Len(b) \/ acc > 8 * MaxZeroBytes THEN -1
  ELSE IF b[i] # 0 THEN acc + (8 - BitLen8(b[i]))
  ELSE ZeroBytes(b, i + 1, acc + 8)

ZerosFrom(b, p) ==
  LET i == p \div 8
      o == p % 8
      rest == ByteAt(b, i + 1) % 2^(8 - o)
  IN IF i + 1 > Len(b) THEN -1
     ELSE IF rest # 0 THEN (8 - o) - BitLen8(rest)
     ELSE ZeroBytes(b, i + 2, 8 - o)

(***************************************************************************)
(* UTF-8-style coded number starting at byte index i (1-based).            *)
(* Result: [ok, len, hi, lo] with value = hi * 2^24 + lo (lo < 2^24,       *)
(* hi < 2^12), `canon` = the value could not have been coded shorter.      *)
(***************************************************************************)
Utf8Dec(b, i) ==
  LET b0 == ByteAt(b, i)
      len == IF b0 < 128 THEN 1 ELSE IF b0 < 192 THEN 0 ELSE IF b0 < 224 THEN 2
             ELSE IF b0 < 240 THEN 3 ELSE IF b0 < 248 THEN 4 ELSE IF b0 < 252 THEN 5
             ELSE IF b0 < 254 THEN 6 ELSE IF b0 = 254 THEN 7 ELSE 0
  IN IF len = 0 \/ i + len - 1 > Len(b) THEN [ok |-> FALSE, len |-> 0, hi |-> 0, lo |-> 0, canon |-> FALSE]
     ELSE IF len = 1 THEN [ok |-> TRUE, len |-> 1, hi |-> 0, lo |-> b0, canon |-> TRUE]
     ELSE
       LET contOk == \A k \in 1..(len - 1) : ByteAt(b, i + k) \div 64 = 2
           first  == b0 % 2^(7 - len)                       \* payload bits of the head byte
           c(k)   == ByteAt(b, i + k) % 64                   \* payload of k-th continuation byte
           \* the last four continuation bytes make up lo (24 bits); everything before is hi
           nlo    == IF len - 1 >= 4 THEN 4 ELSE len - 1
           lo     == FoldLeft(LAMBDA a, k : a * 64 + c(k), 0, Idx(len - nlo, len - 1))
           hiC    == FoldLeft(LAMBDA a, k : a * 64 + c(k), first, Idx(1, len - 1 - nlo))
           hi     == IF nlo = 4 THEN hiC ELSE 0
           lo2    == IF nlo = 4 THEN lo ELSE first * 64^nlo + lo
           \* minimal value that needs `len` bytes: 2^7, 2^11, 2^16, 2^21, 2^26, 2^31
           canon  == CASE len = 2 -> lo2 >= 128
                       [] len = 3 -> lo2 >= 2048
                       [] len = 4 -> lo2 >= 65536
                       [] len = 5 -> hi >= 1 \/ lo2 >= 2097152
                       [] len = 6 -> hi >= 4          \* 2^26 = 4 * 2^24
                       [] len = 7 -> hi >= 128        \* 2^31 = 128 * 2^24
       IN [ok |-> contOk, len |-> len, hi |-> hi, lo |-> lo2, canon |-> canon]

\* Encoder for the same code; value given as hi * 2^24 + lo.  Used by the writer side.
Utf8Len(hi, lo) ==
  IF hi = 0 /\ lo < 128 THEN 1 ELSE IF hi = 0 /\ lo < 2048 THEN 2 ELSE IF hi = 0 /\ lo < 65536 THEN 3
  ELSE IF hi = 0 /\ lo < 2097152 THEN 4 ELSE IF hi < 4 THEN 5 ELSE IF hi < 128 THEN 6 ELSE 7

Utf8Enc(hi, lo) ==
  LET len == Utf8Len(hi, lo)
      \* six-bit groups, least significant first, of the 36-bit value
      g(k) == IF k < 4 THEN (lo \div 64^k) % 64 ELSE (hi \div 64^(k - 4)) % 64
      head == CASE len = 2 -> 192 [] len = 3 -> 224 [] len = 4 -> 240 [] len = 5 -> 248
                [] len = 6 -> 252 [] len = 7 -> 254 [] OTHER -> 0
  IN IF len = 1 THEN <<lo>>
     ELSE <<head + (IF len = 7 THEN 0 ELSE g(len - 1) % 2^(7 - len))>> \o
          [k \in 1..(len - 1) |-> 128 + g(len - 1 - k)]
=============================================================================
