SPECIFICATION Spec
CONSTANTS
  WORD = 8
  Widths = {2, 4, 8}
  ALIGN = 4
  MaxOps = 3
  Kind = "word"
  Variant = "pinned"
INVARIANTS Refines
CHECK_DEADLOCK FALSE
