-------------------------------- MODULE Fill --------------------------------
(***************************************************************************)
(* Abstract meaning of sample delivery (property C14).                     *)
(*                                                                         *)
(* A frame buffer is, as far as anybody can observe, the per-channel       *)
(* sequences of the last fill (the stale tail of an earlier, longer fill   *)
(* is invisible); a context is the MD5 input so far, the number of         *)
(* inter-channel samples and the number of non-empty fills.  Filling with  *)
(* packed little-endian bytes means filling with the sign-extended         *)
(* integers they denote:  FillBytes(b, B) == FillInts(FromLE(b, B)).       *)
(***************************************************************************)
EXTENDS Naturals, Integers, Sequences, SequencesExt

\* interleaved samples -> per-channel sequences
Deinterleave(x, ch) == [c \in 1..ch |-> [t \in 1..(Len(x) \div ch) |-> x[(t - 1) * ch + c]]]

\* B little-endian bytes -> signed integer (sign extension from 8*B bits), B in 1..4
FromLE(b, B) ==
  [i \in 1..(Len(b) \div B) |->
     LET byte(k) == b[(i - 1) * B + k + 1]                      \* k = 0 is the least significant byte
         top     == IF byte(B - 1) >= 128 THEN byte(B - 1) - 256 ELSE byte(B - 1)
         low     == FoldLeft(LAMBDA a, k : a + byte(k) * 256^k, 0, [j \in 1..(B - 1) |-> j - 1])
     IN top * 256^(B - 1) + low]

\* integers -> B little-endian bytes each (two's complement; \div is floor division, so
\* (x \div 256^j) % 256 is byte j also for negative x), the MD5 input of RFC 9639 section 8.2
ToLE(x, B) == [i \in 1..(Len(x) * B) |-> (x[((i - 1) \div B) + 1] \div 256^((i - 1) % B)) % 256]

\* abstract context: [bytes fed to MD5 (as an incremental state elsewhere), samples, fills]
CtxFill(ctx, x, ch) ==
  IF Len(x) = 0 THEN ctx
  ELSE [samples |-> ctx.samples + (Len(x) \div ch), fills |-> ctx.fills + 1]
=============================================================================
