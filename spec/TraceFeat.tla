------------------------------ MODULE TraceFeat ------------------------------
(***************************************************************************)
(* C20 (FeatureIndep): for configurations that enable no experimental      *)
(* option, out[case] does not depend on the cargo features the library was *)
(* built with.  out is an unknown function fixed by the first build that   *)
(* reports a case; every other build must report the same digest / length. *)
(* Cases encoded multi-threaded (`mt`) exist only in builds with the "par"  *)
(* feature; they are compared among those builds, and C05 ties them to the *)
(* single-thread bytes.                                                    *)
(***************************************************************************)
EXTENDS Naturals, Sequences, SequencesExt, FiniteSetsExt, TLC, Json, IOUtils
Rec == ndJsonDeserialize(IOEnv.TRACE)
VARIABLES l, out
Ev == Rec[l]
Init == l = 1 /\ out = << >>
Step ==
  /\ l <= Len(Rec) /\ l' = l + 1
  /\ IF Ev.case \in DOMAIN out
     THEN /\ UNCHANGED out
          /\ PrintT("VERDICT|" \o Ev.build \o "-" \o ToString(Ev.case) \o
               (IF out[Ev.case].digest = Ev.digest /\ out[Ev.case].len = Ev.len THEN "|pass|"
                ELSE "|FAIL|C20: case " \o ToString(Ev.case) \o ": build [" \o Ev.build \o "] emits " \o ToString(Ev.len) \o " bytes (" \o Ev.digest
                     \o "), build [" \o out[Ev.case].build \o "] emits " \o ToString(out[Ev.case].len) \o " bytes (" \o out[Ev.case].digest \o ") ;; "))
     ELSE /\ out' = [c \in DOMAIN out \cup {Ev.case} |-> IF c = Ev.case THEN [digest |-> Ev.digest, len |-> Ev.len, build |-> Ev.build] ELSE out[c]]
          /\ PrintT("VERDICT|" \o Ev.build \o "-" \o ToString(Ev.case) \o "|pass|")
Spec == Init /\ [][Step]_<<l, out>>
Consumed == \/ TLCGet("stats").diameter = Len(Rec) + 1
            \/ (PrintT(<<"UNCONSUMED", TLCGet("stats").diameter, Len(Rec)>>) /\ FALSE)
=============================================================================
