------------------------------ MODULE WriterGen ------------------------------
(***************************************************************************)
(* (a) Round-trip lemma of the specification itself: for every frame       *)
(*     description d of the family below,                                  *)
(*         ParseFrame(FrameBytes(d)) is ok, decodes to d's samples and     *)
(*         reports d's structure.                                          *)
(* (b) Writes the same frames, wrapped in minimal streams, to IOEnv.OUTGEN *)
(*     for the library's parser (spec -> impl).                            *)
(* The family varies one axis at a time around a base frame: subframe kind *)
(* x predictor order x residual coding (4- and 5-bit method, partition     *)
(* orders, parameters 0..14/30, escaped partitions) x wasted bits; header  *)
(* codes (block size, sample rate, sample size, coded number, strategy);   *)
(* channel assignments.                                                    *)
(***************************************************************************)
EXTENDS FlacWriter, Json, IOUtils, FiniteSetsExt

N == 16
Sig == << [i \in 1..N |-> 3 * i - 20],                                         \* ramp
          [i \in 1..N |-> IF i % 2 = 0 THEN 5 ELSE -6],                        \* alternating
          [i \in 1..N |-> IF i = 7 THEN 100 ELSE IF i = 8 THEN -128 ELSE 0],   \* impulses incl. the most negative value
          [i \in 1..N |-> 127 - (i % 3)] >>                                    \* near the positive limit
Times(x, m) == [i \in 1..Len(x) |-> x[i] * m]

Res(method, porder, params, raw) == [method |-> method, porder |-> porder, params |-> params, raw |-> raw]
ResVariants ==
  { Res(0, 0, <<k>>, <<0>>) : k \in {0, 1, 3, 7, 14} } \cup
  { Res(0, 1, <<k1, k2>>, <<0, 0>>) : k1 \in {0, 4}, k2 \in {2, 14} } \cup
  { Res(0, 2, <<1, 2, 3, 4>>, <<0, 0, 0, 0>>) } \cup
  { Res(0, 0, <<15>>, <<13>>), Res(0, 1, <<15, 3>>, <<13, 0>>), Res(0, 1, <<2, 15>>, <<0, 14>>) } \cup     \* escaped partitions
  { Res(1, 0, <<k>>, <<0>>) : k \in {0, 5, 16, 30} } \cup { Res(1, 1, <<31, 20>>, <<13, 0>>) }            \* 5-bit method

Sub(kind, wasted, samples, order, coefs, prec, shift, res) ==
  [kind |-> kind, wasted |-> wasted, samples |-> samples, order |-> order, coefs |-> coefs, prec |-> prec, shift |-> shift, res |-> res]
NoR == Res(0, 0, <<0>>, <<0>>)

\* subframe variants for a channel signal x (values fit 8 - w bits before the shift)
SubVariants(x, w) ==
  LET xs == Times(x, 2^w) IN
  { Sub("verbatim", w, xs, 0, <<>>, 0, 0, NoR) } \cup
  { Sub("fixed", w, xs, o, <<>>, 0, 0, r) : o \in 0..4, r \in { q \in ResVariants : (N \div 2^q.porder) >= 4 } } \cup
  { Sub("lpc", w, xs, Len(c), c, p, sh, r) :
      c \in { <<1>>, <<2, -1>>, <<1, 1, -1>> }, p \in {3, 15}, sh \in {0, 1},
      r \in { Res(0, 0, <<4>>, <<0>>), Res(0, 1, <<15, 6>>, <<14, 0>>), Res(1, 0, <<17>>, <<0>>) } }

Frame(strategy, bsCode, srCode, chCode, bpsCode, numHi, numLo, n, rate, bps, subs) ==
  [strategy |-> strategy, bsCode |-> bsCode, srCode |-> srCode, chCode |-> chCode, bpsCode |-> bpsCode,
   numHi |-> numHi, numLo |-> numLo, n |-> n, rate |-> rate, bps |-> bps, subs |-> subs]
Base(subs, chCode) == Frame(0, 6, 9, chCode, 1, 0, 0, N, 44100, 8, subs)

\* axis 1: subframe coding (mono)
Axis1 == UNION { { Base(<<s>>, 0) : s \in SubVariants([i \in 1..N |-> Sig[k][i] \div 2^w], w) } : k \in 1..4, w \in 0..2 }
         \cup { Base(<<Sub("constant", w, [i \in 1..N |-> 12 * 2^w], 0, <<>>, 0, 0, NoR)>>, 0) : w \in 0..2 }
\* axis 2: header codes (verbatim / constant mono frames)
ConstSub(n, v) == Sub("constant", 0, [i \in 1..n |-> v], 0, <<>>, 0, 0, NoR)
Axis2 ==
  { Frame(st, bc, 9, 0, bp, nh, nl, N, 44100, 8, <<Sub("verbatim", 0, Sig[1], 0, <<>>, 0, 0, NoR)>>) :
      st \in {0, 1}, bc \in {6, 7}, bp \in {0, 1},
      nh \in {0, 127}, nl \in {0, 127, 128, 2047, 2048, 65535, 65536, 16777215} } \cup
  { Frame(1, 6, 9, 0, 1, 4095, 16777215, N, 44100, 8, <<ConstSub(N, -3)>>) } \cup                          \* 36-bit sample number
  { Frame(0, sc[1], sc[2], 0, 1, 0, 5, sc[3], sc[4], 8, <<ConstSub(sc[3], 7)>>) :
      sc \in { <<1, 0, 192, 44100>>, <<2, 4, 576, 8000>>, <<5, 11, 4608, 96000>>, <<8, 12, 256, 48000>>, <<15, 12, 32768, 255000>>,
               <<6, 13, 200, 44101>>, <<7, 13, 300, 65535>>, <<7, 14, 1000, 44100>>, <<6, 14, 256, 655350>>, <<7, 1, 65536, 88200>>,
               <<6, 2, 1, 176400>>, <<6, 3, 2, 192000>> } }
\* axis 3: channel assignments
Axis3 ==
  { LET cc == CodedChannels(Sig[a], Sig[b], code)
    IN Frame(0, 6, 9, code, 1, 0, 9, N, 44100, 8,
             << Sub(kd[1], 0, cc[1], kd[2], <<>>, 0, 0, Res(0, 0, <<5>>, <<0>>)), Sub(kd[1], 0, cc[2], kd[2], <<>>, 0, 0, Res(0, 1, <<6, 15>>, <<0, 13>>)) >>) :
    a \in 1..4, b \in 1..4, code \in {1, 8, 9, 10}, kd \in { <<"verbatim", 0>>, <<"fixed", 2>> } } \cup
  { Frame(0, 6, 9, c - 1, 1, 0, 0, N, 44100, 8, [j \in 1..c |-> Sub("verbatim", 0, Sig[(j % 4) + 1], 0, <<>>, 0, 0, NoR)]) : c \in 3..8 }

Family == Axis1 \cup Axis2 \cup Axis3

\* the samples a decoder must produce for a frame description
Expected(d) ==
  IF d.chCode < 8 THEN [c \in 1..Len(d.subs) |-> d.subs[c].samples]
  ELSE IF d.chCode = 8 THEN << d.subs[1].samples, [i \in 1..d.n |-> d.subs[1].samples[i] - d.subs[2].samples[i]] >>
  ELSE IF d.chCode = 9 THEN << [i \in 1..d.n |-> d.subs[1].samples[i] + d.subs[2].samples[i]], d.subs[2].samples >>
  ELSE LET m2(i) == 2 * d.subs[1].samples[i] + (d.subs[2].samples[i] % 2)
       IN << [i \in 1..d.n |-> (m2(i) + d.subs[2].samples[i]) \div 2], [i \in 1..d.n |-> (m2(i) - d.subs[2].samples[i]) \div 2] >>

RoundTrip(d) ==
  \E f \in {ParseFrame(FrameBytes(d), 0, d.bps)} :
     /\ f.ok /\ f.n = d.n /\ f.decoded = Expected(d) /\ f.next = Len(FrameBytes(d)) /\ f.padOk
     /\ f.strategy = d.strategy /\ f.num.hi = d.numHi /\ f.num.lo = d.numLo /\ f.num.canon
     /\ (f.rateHdr = -1 \/ f.rateHdr = d.rate) /\ f.nch = Len(d.subs)
     /\ \A c \in 1..f.nch : /\ f.subs[c].kind = d.subs[c].kind /\ f.subs[c].wasted = d.subs[c].wasted
                            /\ (d.subs[c].kind \in {"fixed", "lpc"} =>
                                  /\ f.subs[c].order = d.subs[c].order
                                  /\ f.subs[c].res.method = d.subs[c].res.method /\ f.subs[c].res.porder = d.subs[c].res.porder
                                  /\ f.subs[c].res.params = d.subs[c].res.params)
                            /\ SubSize(f.subs[c], f.n) = f.subs[c].end - f.subs[c].start
     /\ FrameSize(f) = 8 * f.len

\* which clause of the round trip fails (diagnostics; printed by WriterRoundTrip)
Why(dd) ==
  LET f == ParseFrame(FrameBytes(dd), 0, dd.bps) IN
  IF ~f.ok THEN {"parse: " \o f.why} ELSE
  (IF f.n # dd.n THEN {"n"} ELSE {}) \cup (IF f.decoded # Expected(dd) THEN {"decoded"} ELSE {}) \cup
  (IF f.next # Len(FrameBytes(dd)) THEN {"next"} ELSE {}) \cup (IF ~f.padOk THEN {"pad"} ELSE {}) \cup
  (IF f.strategy # dd.strategy THEN {"strategy"} ELSE {}) \cup (IF f.num.hi # dd.numHi \/ f.num.lo # dd.numLo THEN {"num"} ELSE {}) \cup
  (IF ~f.num.canon THEN {"canon"} ELSE {}) \cup (IF ~(f.rateHdr = -1 \/ f.rateHdr = dd.rate) THEN {"rate"} ELSE {}) \cup
  (IF f.nch # Len(dd.subs) THEN {"nch"} ELSE
   UNION { (IF f.subs[c].kind # dd.subs[c].kind THEN {"kind"} ELSE {}) \cup (IF f.subs[c].wasted # dd.subs[c].wasted THEN {"wasted"} ELSE {}) \cup
           (IF dd.subs[c].kind \in {"fixed", "lpc"} /\ f.subs[c].order # dd.subs[c].order THEN {"order"} ELSE {}) \cup
           (IF dd.subs[c].kind \in {"fixed", "lpc"} /\ f.subs[c].res.params # dd.subs[c].res.params THEN {"params"} ELSE {}) \cup
           (IF SubSize(f.subs[c], f.n) # f.subs[c].end - f.subs[c].start THEN {"subsize"} ELSE {}) : c \in 1..f.nch }) \cup
  (IF FrameSize(f) # 8 * f.len THEN {"framesize"} ELSE {})

Features(d) ==
  [wasted |-> \E c \in 1..Len(d.subs) : d.subs[c].wasted > 0,
   escape |-> \E c \in 1..Len(d.subs) : d.subs[c].kind \in {"fixed", "lpc"} /\
                 \E j \in 1..Len(d.subs[c].res.params) : d.subs[c].res.params[j] = (IF d.subs[c].res.method = 0 THEN 15 ELSE 31),
   method5 |-> \E c \in 1..Len(d.subs) : d.subs[c].kind \in {"fixed", "lpc"} /\ d.subs[c].res.method = 1,
   variable |-> d.strategy = 1, bigblock |-> d.n > 32767, bigrate |-> d.rate > 96000,
   kind |-> d.subs[1].kind, chCode |-> d.chCode, bsCode |-> d.bsCode, srCode |-> d.srCode]

Emit(d) == [bytes |-> StreamBytes(<<FrameBytes(d)>>, IF d.rate > 655350 THEN 0 ELSE d.rate % 1048576, Len(d.subs), d.bps, IF d.n > 65535 THEN 65535 ELSE d.n, d.n),
            expect |-> Expected(d), n |-> d.n, feat |-> Features(d)]

ASSUME IOEnv.OUTGEN = "" \/ ndJsonSerialize(IOEnv.OUTGEN, SetToSeq({ Emit(d) : d \in Family }))
ASSUME PrintT(<<"GENERATED", Cardinality(Family)>>)

VARIABLE d
Init == d \in Family
Next == UNCHANGED d
Spec == Init /\ [][Next]_d
WriterRoundTrip == RoundTrip(d) \/ (PrintT(<<"BAD", Why(d), d.subs[1].kind, d.subs[1].order, d.subs[1].wasted, d.subs[1].res, d.bsCode, d.srCode, d.chCode, d.n, d.numHi, d.numLo, d.strategy>>) /\ FALSE)
=============================================================================
