\* quick-tier scope (two residual values); RiceSearch.cfg is the thorough scope
CONSTANTS
  MP = 2
  PCAP = 3
  SHB = 2
  CL = 31
  UN = 2
  OCAP = 15
  NS = {2, 3, 4, 6, 8}
  EV = {1, 13}
  WS = {0, 1, 2, 3}
  PS = {0, 1, 2, 3}
SPECIFICATION Spec
INVARIANTS FinestAgrees Shape EmittedOptimal BitsHonest NeverBelowTruth TieRule
CHECK_DEADLOCK FALSE
