------------------------------ MODULE TraceFill ------------------------------
(***************************************************************************)
(* C14: the same audio delivered as 32-bit integers and as packed          *)
(* little-endian bytes.  For every recorded fill the harness reports, for  *)
(* both delivery paths, a verbatim frame encoded from the frame buffer and *)
(* the context's digest and counters.  TLC decodes both frames with        *)
(* FlacFormat, computes the MD5 of the spec-defined serialisation itself   *)
(* and demands that both paths equal the abstract meaning of Fill.tla.     *)
(***************************************************************************)
EXTENDS Naturals, Integers, Sequences, SequencesExt, FiniteSetsExt, TLC, Json, IOUtils, FlacFormat, Md5, Fill

Rec == ndJsonDeserialize(IOEnv.TRACE)
VARIABLES l, c, md, ctx, bad
vars == << l, c, md, ctx, bad >>
Ev == Rec[l]
Case == Rec[c]

Init == l = 1 /\ c = 0 /\ md = Md5Start /\ ctx = [samples |-> 0, fills |-> 0] /\ bad = {}

Flush == IF c = 0 THEN TRUE
         ELSE PrintT("VERDICT|" \o Case.id \o (IF bad = {} THEN "|pass|" ELSE "|FAIL|")
                     \o FoldSet(LAMBDA x, a : a \o x \o " ;; ", "", bad))

NewCase ==
  /\ l <= Len(Rec) /\ Ev.ev = "fillcase"
  /\ Flush
  /\ l' = l + 1 /\ c' = l /\ md' = Md5Start /\ ctx' = [samples |-> 0, fills |-> 0] /\ bad' = {}

\* what one delivery path reported, against the abstract state after the fill
PathProblems(name, obs, want, ctx2, digest, cs, k) ==
  LET pre == "C14: " \o name \o " path, fill " \o ToString(k) \o ": " IN
  IF obs.panic THEN {pre \o "panicked"}
  ELSE IF obs.err THEN {pre \o "fill returned an error for a valid block"}
  ELSE
  (IF obs.filled # Len(want[1]) THEN {pre \o "filled_size " \o ToString(obs.filled) \o " instead of " \o ToString(Len(want[1]))} ELSE {}) \cup
  (IF obs.total # ctx2.samples THEN {pre \o "context counts " \o ToString(obs.total) \o " samples instead of " \o ToString(ctx2.samples)} ELSE {}) \cup
  (IF obs.fnum # ctx2.fills - 1 THEN {pre \o "context frame number " \o ToString(obs.fnum) \o " instead of " \o ToString(ctx2.fills - 1)} ELSE {}) \cup
  (IF obs.md5 # digest THEN {pre \o "context digest differs from the MD5 of the serialised samples"} ELSE {}) \cup
  (IF Len(want[1]) = 0 \/ cs.bps > 24 THEN {}
   ELSE UNION { IF ~f.ok THEN {pre \o "verbatim frame of the buffer does not parse: " \o f.why}
                ELSE IF f.decoded # want THEN {pre \o "frame buffer content differs from the samples delivered"}
                ELSE {} : f \in {ParseFrame(obs.frame, 0, cs.bps)} })

FillStep ==
  /\ l <= Len(Rec) /\ Ev.ev = "fill" /\ c > 0
  /\ l' = l + 1 /\ c' = c
  /\ LET cs == Case
         x  == Ev.x
         B  == cs.B
     IN \E want \in {Deinterleave(x, cs.ch)} :
        \E md2 \in {IF Len(x) = 0 THEN md ELSE Md5Feed(md, ToLE(x, B))} :
        \E digest \in {Md5Finish(md2)} :
        LET ctx2 == CtxFill(ctx, x, cs.ch) IN
        /\ md' = md2 /\ ctx' = ctx2
        /\ bad' = bad \cup PathProblems("integer", Ev.int, want, ctx2, digest, cs, ctx.fills)
                       \cup PathProblems("byte", Ev.byte, want, ctx2, digest, cs, ctx.fills)
                       \cup (IF FromLE(Ev.bytes, B) # x
                               THEN {"harness: packed bytes do not denote the integers"} ELSE {})

Fin ==
  /\ l <= Len(Rec) /\ Ev.ev = "fin"
  /\ Flush
  /\ l' = l + 1 /\ c' = 0 /\ md' = Md5Start /\ ctx' = [samples |-> 0, fills |-> 0] /\ bad' = {}

Next == NewCase \/ FillStep \/ Fin
Spec == Init /\ [][Next]_vars
Consumed == \/ TLCGet("stats").diameter = Len(Rec) + 1
            \/ (PrintT(<<"UNCONSUMED", TLCGet("stats").diameter, Len(Rec)>>) /\ FALSE)
=============================================================================
