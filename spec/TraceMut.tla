------------------------------- MODULE TraceMut -------------------------------
(***************************************************************************)
(* C16: outcomes of the library's stream parser on mutated streams.        *)
(*                                                                         *)
(* ParserRobust: outcome \in {Error, Ok(t)} (never a panic), and            *)
(* Ok(t) on a stream altered inside a frame implies Audio(t) =             *)
(* Audio(original).  The harness enumerates the mutants (single-bit flips, *)
(* 2..8-bit bursts at every bit position, truncation at every byte, random *)
(* byte strings), reports tallies per class (`agg`), every panic (`panic`) *)
(* and every accepted mutant (`ok`).  For accepted mutants TLC rebuilds    *)
(* the mutated bytes itself, decodes them with FlacFormat and compares the *)
(* audio with the original's; CrcLemmas.tla shows that a conforming parser *)
(* must have rejected any such alteration inside a frame.                  *)
(***************************************************************************)
EXTENDS Naturals, Integers, Sequences, SequencesExt, FiniteSetsExt, TLC, Json, IOUtils, Bitwise, FlacFormat

Rec == ndJsonDeserialize(IOEnv.TRACE)
VARIABLES l, o        \* o = index of the current `orig` event
Ev == Rec[l]
Orig == Rec[o]

Out(id, bad) == PrintT("VERDICT|" \o id \o (IF bad = {} THEN "|pass|" ELSE "|FAIL|")
                       \o FoldSet(LAMBDA x, a : a \o x \o " ;; ", "", bad))

\* the mutated byte string: xor mask applied from byte `pos` (0-based), then truncated
Mutated(b, pos, mask, trunc) ==
  LET m == [i \in 1..Len(b) |-> IF i > pos /\ i <= pos + Len(mask) THEN b[i] ^^ mask[i - pos] ELSE b[i]]
  IN IF trunc >= 0 THEN SubSeq(m, 1, trunc) ELSE m

\* all frames of a stream decoded by FlacFormat: sequence of per-frame channel sequences, or <<>> on failure
RECURSIVE DecodeAll(_, _, _, _)
DecodeAll(b, at, bps, acc) ==
  IF at = Len(b) THEN [ok |-> TRUE, frames |-> acc]
  ELSE LET f == ParseFrame(b, at, bps)
       IN IF ~f.ok THEN [ok |-> FALSE, frames |-> acc] ELSE DecodeAll(b, f.next, bps, Append(acc, f.decoded))

JudgeOk(e) ==
  LET b  == Mutated(Orig.bytes, e.pos, e.mask, e.trunc)
      h  == StreamHead(b)
      m  == IF h.ok /\ h.magic THEN Meta(b) ELSE [ok |-> FALSE, at |-> 0]
      d  == IF m.ok THEN DecodeAll(b, m.at, h.bps, <<>>) ELSE [ok |-> FALSE, frames |-> <<>>]
  IN \* truncations and random overwrites (longer than 8 bits) are judged for panics only
     (IF ~e.audio_same /\ e.inframe /\ e.class \in {"bitflip", "burst"}
        THEN {"C16: " \o e.class \o " mutant at byte " \o ToString(e.pos) \o " inside a frame accepted with different audio content"} ELSE {}) \cup
     (IF e.inframe /\ e.class \in {"bitflip", "burst"} /\ d.ok /\ d.frames # Orig.blocks
        THEN {"C16: " \o e.class \o " mutant at byte " \o ToString(e.pos) \o " inside a frame is a valid stream with different audio (CRC collision?)"} ELSE {}) \cup
     (IF e.inframe /\ ~d.ok /\ e.class \in {"bitflip", "burst"}
        THEN {"C16: " \o e.class \o " mutant at byte " \o ToString(e.pos) \o " inside a frame was accepted although its CRC / structure is broken (audio "
              \o (IF e.audio_same THEN "unchanged" ELSE "changed") \o ")"} ELSE {})

Step ==
  /\ l <= Len(Rec) /\ l' = l + 1
  /\ CASE Ev.ev = "orig" -> o' = l /\ Out(Ev.id, IF ~DecodeAll(Ev.bytes, Meta(Ev.bytes).at, StreamHead(Ev.bytes).bps, <<>>).ok \/
                                                     DecodeAll(Ev.bytes, Meta(Ev.bytes).at, StreamHead(Ev.bytes).bps, <<>>).frames # Ev.blocks
                                                  THEN {"harness: the unmutated stream does not decode to the recorded blocks"} ELSE {})
       [] Ev.ev = "agg" -> o' = o /\ Out(Ev.id,
            (IF Ev.panic > 0 THEN {"C16: " \o ToString(Ev.panic) \o " of " \o ToString(Ev.total) \o " " \o Ev.class \o " mutants made the parser panic"} ELSE {}) \cup
            (IF Ev.err + Ev.ok + Ev.panic # Ev.total THEN {"harness: tally does not add up"} ELSE {}))
       [] Ev.ev = "panic" -> o' = o /\ Out(Ev.id, {"C16: parser panicked on a " \o Ev.class \o " mutant at byte " \o ToString(Ev.pos) \o ": " \o Ev.msg})
       [] Ev.ev = "wrong" -> o' = o /\ Out(Ev.id, {"NOTE: the parser accepts a valid stream written by FlacWriter.tla but decodes different audio: " \o Ev.msg})
       [] Ev.ev = "ok" -> o' = o /\ Out(Ev.id, JudgeOk(Ev))
Init == l = 1 /\ o = 0
Spec == Init /\ [][Step]_<<l, o>>
Consumed == \/ TLCGet("stats").diameter = Len(Rec) + 1
            \/ (PrintT(<<"UNCONSUMED", TLCGet("stats").diameter, Len(Rec)>>) /\ FALSE)
=============================================================================
