SPECIFICATION Spec
INVARIANTS WriterRoundTrip
CHECK_DEADLOCK FALSE
