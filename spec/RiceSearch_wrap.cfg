\* documented counterexample: without the "< CL" premise the search of the code as written is not optimal
CONSTANTS
  MP = 2
  PCAP = 3
  SHB = 2
  CL = 31
  UN = 2
  OCAP = 15
  NS = {4, 8}
  EV = {0, 1, 4, 13}
  WS = {0}
  PS = {0, 1, 2, 3}
SPECIFICATION Spec
INVARIANTS Optimal
CHECK_DEADLOCK FALSE
