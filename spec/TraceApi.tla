------------------------------- MODULE TraceApi -------------------------------
(* C17: outcomes of API calls on the argument vectors generated from Api.tla, judged against Api!Verdict. *)
EXTENDS Api, Json, IOUtils, SequencesExt, FiniteSetsExt

Rec == ndJsonDeserialize(IOEnv.TRACE)
VARIABLE l
Ev == Rec[l]

Out(id, bad) == PrintT("VERDICT|" \o id \o (IF bad = {} THEN "|pass|" ELSE "|FAIL|")
                       \o FoldSet(LAMBDA x, a : a \o x \o " ;; ", "", bad))

Judge(e) ==
  LET c == e.args
      v == Verdict(c)
  IN (IF e.outcome \notin {"ok", "err"}
        THEN {"C17: " \o c.call \o " call " \o e.outcome \o " (" \o e.detail \o ") for " \o ToString(c)} ELSE {}) \cup
     (IF v = "err" /\ e.outcome = "ok"
        THEN {"C17: " \o c.call \o " call accepted an argument outside the supported domain: " \o ToString(c)} ELSE {}) \cup
     (IF v = "ok" /\ e.outcome = "err"
        THEN {"C17: " \o c.call \o " call rejected valid arguments (" \o e.detail \o "): " \o ToString(c)} ELSE {}) \cup
     (IF e.outcome = "ok" /\ c.call = "stream" /\ ~(e.si.rate = c.rate /\ e.si.ch = c.ch /\ e.si.bps = c.bps)
        THEN {"C17: stream-level call silently reinterpreted its arguments: STREAMINFO states rate " \o ToString(e.si.rate)
              \o " channels " \o ToString(e.si.ch) \o " width " \o ToString(e.si.bps) \o " for " \o ToString(c)} ELSE {}) \cup
     (IF e.outcome = "ok" /\ c.call = "frame" /\ ~(e.fr.num = c.fnum /\ e.fr.n = (IF c.partial /\ c.bs > 16 /\ c.bs <= 65536 THEN c.bs - 5 ELSE c.bs) /\ e.fr.ch = c.ch)
        THEN {"C17: frame-level call silently reinterpreted its arguments: frame states number " \o ToString(e.fr.num)
              \o " block size " \o ToString(e.fr.n) \o " for " \o ToString(c)} ELSE {}) \cup
     (IF e.outcome = "ok" /\ c.call = "fill" /\ v = "ok" /\ e.filled # c.n
        THEN {"C17: fill reports " \o ToString(e.filled) \o " samples for " \o ToString(c)} ELSE {})

Step == l <= Len(Rec) /\ l' = l + 1 /\ Out(Ev.id, Judge(Ev))
Init == l = 1
Spec == Init /\ [][Step]_l
Consumed == \/ TLCGet("stats").diameter = Len(Rec) + 1
            \/ (PrintT(<<"UNCONSUMED", TLCGet("stats").diameter, Len(Rec)>>) /\ FALSE)
=============================================================================
