------------------------------ MODULE TraceComp ------------------------------
(***************************************************************************)
(* C18 (constructors are total and imply serialisability), the directly    *)
(* constructed part of C08 (reported bit count = bits written) and the     *)
(* component part of C15 (the parser inverts the writer).                  *)
(*                                                                         *)
(* Components.  A constructed component C of kind k with block size n and  *)
(* sample width bps is *serialisable* iff                                  *)
(*   verify(C) = ok, write(C) succeeds on both in-memory sinks with the    *)
(*   same bits, |bits| = count_bits(C), the library's parser gives C back, *)
(*   and the independent parser of FlacFormat.tla consumes exactly |bits|  *)
(*   bits and recomputes the same size from the structure it sees.         *)
(* C18 demands: constructor outcome # panic, and outcome = ok => the above. *)
(***************************************************************************)
EXTENDS Naturals, Integers, Sequences, SequencesExt, FiniteSetsExt, TLC, Json, IOUtils, FlacFormat

Rec == ndJsonDeserialize(IOEnv.TRACE)
VARIABLE l
Ev == Rec[l]

Out(id, bad) == PrintT("VERDICT|" \o id \o (IF bad = {} THEN "|pass|" ELSE "|FAIL|")
                       \o FoldSet(LAMBDA x, a : a \o x \o " ;; ", "", bad))

Small(e) == e.nbits_hi = 0 /\ e.count_hi = 0        \* sizes below 2^24 bits: plain integers
NBits(e) == e.nbits_lo
Count(e) == e.count_lo

\* the independent parse of the written bytes, per kind: set of complaints
Independent(e) ==
  LET b == e.bytes IN
  IF e.kind \in {"constant", "verbatim", "fixed", "lpc"} THEN
     UNION { IF ~s.ok THEN {"C18: independent parser rejects the serialised " \o e.kind \o " subframe: " \o s.why}
             ELSE (IF s.kind # e.kind THEN {"C18: serialised as a " \o s.kind \o " subframe"} ELSE {}) \cup
                  (IF s.end # NBits(e) THEN {"C08: independent parser consumes " \o ToString(s.end) \o " bits, " \o ToString(NBits(e)) \o " were written"} ELSE {}) \cup
                  (IF SubSize(s, e.n) # Count(e) THEN {"C08: structural size " \o ToString(SubSize(s, e.n)) \o " differs from count_bits " \o ToString(Count(e))} ELSE {}) \cup
                  \* the content the independent parser reads is the content the component was built from
                  (IF s.kind = "constant" /\ e.kind = "constant" /\ e.n >= 1 /\ s.samples[1] # e.x.dc
                     THEN {"C18: serialised constant is " \o ToString(s.samples[1]) \o ", constructed from " \o ToString(e.x.dc)} ELSE {}) \cup
                  (IF s.kind = "verbatim" /\ e.kind = "verbatim" /\ e.x.check /\ s.samples # e.x.samples
                     THEN {"C18: serialised verbatim samples differ from the samples given"} ELSE {}) \cup
                  (IF s.kind \in {"fixed", "lpc"} /\ s.kind = e.kind /\ s.warm # e.x.warm
                     THEN {"C18: serialised warm-up samples differ from the samples given"} ELSE {}) \cup
                  (IF s.kind = "lpc" /\ e.kind = "lpc" /\ (s.coefs # e.x.coefs \/ s.shift # e.x.shift \/ s.prec # e.x.prec)
                     THEN {"C18: serialised predictor (precision " \o ToString(s.prec) \o ", shift " \o ToString(s.shift) \o ", coefficients "
                           \o ToString(s.coefs) \o ") differs from the parameters given " \o ToString(e.x.coefs)} ELSE {})
             : s \in {ParseSubStruct(b, 0, e.n, e.bps)} }
  ELSE IF e.kind = "residual" THEN
     UNION { IF ~r.ok THEN {"C18: independent parser rejects the serialised residual"}
             ELSE (IF r.p # NBits(e) THEN {"C08: independent parser consumes " \o ToString(r.p) \o " bits of the residual, " \o ToString(NBits(e)) \o " were written"} ELSE {}) \cup
                  (IF ResidualSize(r, e.n, e.ord) # Count(e) THEN {"C08: structural size of the residual differs from count_bits"} ELSE {}) \cup
                  (IF e.x.check /\ r.out # e.x.vals THEN {"C18: serialised residual values differ from the quotients/remainders given"} ELSE {})
             : r \in {Residual(b, 0, e.n, e.ord)} }
  ELSE IF e.kind = "header" THEN
     UNION { IF ~h.ok THEN {"C18: independent parser rejects the serialised frame header: " \o h.why}
             ELSE (IF 8 * h.hdrLen # NBits(e) THEN {"C08: header is " \o ToString(8 * h.hdrLen) \o " bits, " \o ToString(NBits(e)) \o " were written"} ELSE {}) \cup
                  (IF HeaderSize(h) # Count(e) THEN {"C08: header count_bits " \o ToString(Count(e)) \o " but the header written has " \o ToString(HeaderSize(h)) \o " bits"} ELSE {}) \cup
                  (IF h.n # e.n THEN {"C18: header states block size " \o ToString(h.n)} ELSE {}) \cup
                  (IF (h.strategy = 1) # e.x.variable THEN {"C18: blocking-strategy bit does not match the kind of offset set last"} ELSE {}) \cup
                  (IF h.num.hi # e.x.num_hi \/ h.num.lo # e.x.num_lo THEN {"C18: coded number differs from the offset set last"} ELSE {}) \cup
                  (IF e.x.rate >= 0 /\ ~RateAgrees(h, e.x.rate) THEN {"C18: the header's sample-rate code does not state the rate given (" \o ToString(e.x.rate) \o ")"} ELSE {}) \cup
                  (IF ~h.num.canon THEN {"C02: coded number not in shortest form"} ELSE {})
             : h \in {ParseHeader(b, 0, e.bps)} }
  ELSE IF e.kind = "frame" THEN
     UNION { IF ~f.ok THEN {"C18: independent parser rejects the serialised frame: " \o f.why}
             ELSE (IF 8 * f.len # NBits(e) THEN {"C08: frame is " \o ToString(8 * f.len) \o " bits, " \o ToString(NBits(e)) \o " were written"} ELSE {}) \cup
                  (IF FrameSize(f) # Count(e) THEN {"C08: frame count_bits " \o ToString(Count(e)) \o " but the structural size is " \o ToString(FrameSize(f))} ELSE {}) \cup
                  (IF f.nch # e.x.nsub THEN {"C18: header announces " \o ToString(f.nch) \o " channels for " \o ToString(e.x.nsub) \o " subframes"} ELSE {})
             : f \in {ParseFrame(b, 0, e.bps)} }
  ELSE IF e.kind = "streaminfo" THEN
     (IF NBits(e) # 272 THEN {"C08: STREAMINFO is not 272 bits"} ELSE {}) \cup
     (IF ~(GetU(b, 80, 20) = e.x.rate_lo /\ e.x.rate_hi = 0) THEN {"C17: STREAMINFO does not state the sample rate that was given"} ELSE {}) \cup
     (IF GetU(b, 100, 3) + 1 # e.x.ch THEN {"C17: STREAMINFO does not state the channel count that was given"} ELSE {}) \cup
     (IF GetU(b, 103, 5) + 1 # e.bps THEN {"C17: STREAMINFO does not state the sample width that was given"} ELSE {})
  ELSE {}

Judge(e) ==
  IF e.outcome = "panic" THEN {"C18: constructor panicked: " \o e.args}
  ELSE IF e.outcome = "err" THEN {}
  ELSE
  (IF e.verify = "panic" THEN {"C18: verify() panicked on a constructed component: " \o e.args} ELSE {}) \cup
  (IF e.verify = "err" THEN {"C18: constructor returned a component that does not verify: " \o e.args} ELSE {}) \cup
  (IF e.kind = "qlp" THEN
     (IF e.verify = "ok" /\ (e.x.prec < 1 \/ e.x.prec > 15 \/ e.x.shift < 0 \/ e.x.shift > 15 \/ e.ord > 32 \/ ~e.x.coefs_fit)
        THEN {"C18: accepted predictor parameters that cannot be serialised: " \o e.args} ELSE {})
   ELSE
  (IF e.write8 = "countpanic" THEN {"C18: count_bits() panicked: " \o e.args} ELSE {}) \cup
  (IF e.write8 \in {"panic", "err"} \/ e.write64 \in {"panic", "err"}
     THEN {"C18: serialising a constructed component failed (" \o e.write8 \o "/" \o e.write64 \o "): " \o e.args} ELSE {}) \cup
  (IF e.write8 \in {"ok", "counted"} /\ (e.count_hi # e.nbits_hi \/ e.count_lo # e.nbits_lo)
     THEN {"C08: count_bits differs from the number of bits written: " \o e.args} ELSE {}) \cup
  (IF e.write8 = "ok" /\ e.write64 = "ok" /\ ~e.same64
     THEN {"C11: byte sink and word sink received different bits: " \o e.args} ELSE {}) \cup
  (IF e.write8 = "ok" /\ e.parse \in {"diff", "err", "panic"} /\ e.kind # "unknown"
     THEN {"C18: serialisation does not parse back to an identical component (" \o e.parse \o "): " \o e.args} ELSE {}) \cup
  (IF e.write8 = "ok" /\ Small(e) THEN Independent(e) ELSE {}))

Step == l <= Len(Rec) /\ l' = l + 1 /\ Out(Ev.id, Judge(Ev))
Init == l = 1
Spec == Init /\ [][Step]_l
Consumed == \/ TLCGet("stats").diameter = Len(Rec) + 1
            \/ (PrintT(<<"UNCONSUMED", TLCGet("stats").diameter, Len(Rec)>>) /\ FALSE)
=============================================================================
