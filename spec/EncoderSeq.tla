------------------------------ MODULE EncoderSeq ------------------------------
(***************************************************************************)
(* The single-threaded stream-level entry point (coding.rs                 *)
(* encode_with_fixed_block_size) as a sequential machine, one action per   *)
(* step of its loop: Read, Verify, Encode (any frame that *denotes* the    *)
(* block: abstractly a block id and an arbitrary size), AddFrame, Finish.  *)
(* The source is abstract: Len samples in blocks of BS, read number FailAt *)
(* fails, blocks in Bad hold an out-of-range sample.                       *)
(*                                                                         *)
(* Invariants: the design-level halves of C03 (total / MD5 input = what    *)
(* was consumed, in order), C04 (block-size and frame-size bounds) and the *)
(* error-kind rule that C06 compares the multi-thread protocol with        *)
(* (ParEncoder!SeqResult is this machine's result, see SeqResultMatches).  *)
(* Variant "pinned" states the block sizes *before* the frames are added   *)
(* (as at the pinned commit) - TLC then violates InfoBounds for every      *)
(* length that is not a multiple of BS (fixed by 28f8345).                 *)
(***************************************************************************)
EXTENDS Naturals, Integers, Sequences, FiniteSets, TLC

CONSTANTS BS,        \* block size (3 stands for 4096)
          MinBS,     \* smallest legal STREAMINFO minimum (2 stands for 16)
          Lens,      \* candidate input lengths
          FailAts,   \* candidate failing read indices (99 = none)
          BadSets,   \* candidate sets of bad block indices
          Sizes,     \* candidate frame sizes in bytes (abstract)
          Variant    \* "repaired" | "pinned"

NoFail == 99
VARIABLES sc,       \* scenario [len, failAt, bad]
          pc, reads, consumed,        \* control; blocks consumed so far (sequence of block lengths)
          cur,                        \* length of the block just read (0 = none)
          frames,                     \* sequence of [n, size]
          info,                       \* [minbs, maxbs, minfs, maxfs, total, hashed]
          result
vars == << sc, pc, reads, consumed, cur, frames, info, result >>

NBlocks(len) == (len + BS - 1) \div BS
BlockLen(len, k) == IF (k + 1) * BS <= len THEN BS ELSE len - k * BS     \* k-th block (0-based), k < NBlocks
Min2(a, b) == IF a <= b THEN a ELSE b
Max2(a, b) == IF a >= b THEN a ELSE b
Huge == 1000

Init ==
  /\ sc \in [len : Lens, failAt : FailAts, bad : BadSets]
  /\ pc = "start" /\ reads = 0 /\ consumed = <<>> /\ cur = 0 /\ frames = <<>> /\ result = "none"
  /\ info = [minbs |-> Huge, maxbs |-> 0, minfs |-> Huge, maxfs |-> 0, total |-> 0, hashed |-> <<>>]

Start ==
  /\ pc = "start" /\ pc' = "read"
  /\ info' = IF Variant = "pinned" THEN [info EXCEPT !.minbs = BS, !.maxbs = BS] ELSE info
  /\ UNCHANGED << sc, reads, consumed, cur, frames, result >>

Read ==
  /\ pc = "read" /\ reads' = reads + 1
  /\ IF reads = sc.failAt
     THEN pc' = "done" /\ result' = "err:source" /\ UNCHANGED << consumed, cur, info >>
     ELSE IF reads < NBlocks(sc.len)
     THEN /\ cur' = BlockLen(sc.len, reads) /\ consumed' = Append(consumed, BlockLen(sc.len, reads))
          \* Context::fill_* : MD5 input and sample count advance with every non-empty fill
          /\ info' = [info EXCEPT !.total = @ + BlockLen(sc.len, reads), !.hashed = Append(@, reads)]
          /\ pc' = "verify" /\ UNCHANGED result
     ELSE pc' = "finish" /\ UNCHANGED << consumed, cur, info, result >>
  /\ UNCHANGED << sc, frames >>

Verify ==
  /\ pc = "verify"
  /\ IF (reads - 1) \in sc.bad THEN pc' = "done" /\ result' = "err:config" ELSE pc' = "encode" /\ UNCHANGED result
  /\ UNCHANGED << sc, reads, consumed, cur, frames, info >>

\* any frame that denotes the block: it has the block's length and some size
EncodeAdd ==
  /\ pc = "encode"
  /\ \E size \in Sizes :
       /\ frames' = Append(frames, [n |-> cur, size |-> size])
       \* Stream::add_frame -> StreamInfo::update_frame_info
       /\ info' = [info EXCEPT !.minbs = Min2(@, cur), !.maxbs = Max2(@, cur), !.minfs = Min2(@, size), !.maxfs = Max2(@, size)]
  /\ pc' = "read" /\ UNCHANGED << sc, reads, consumed, cur, result >>

Finish ==
  /\ pc = "finish" /\ pc' = "done" /\ result' = "ok"
  /\ info' = IF Variant = "repaired" THEN [info EXCEPT !.minbs = BS, !.maxbs = BS] ELSE info
  /\ UNCHANGED << sc, reads, consumed, cur, frames >>

Next == Start \/ Read \/ Verify \/ EncodeAdd \/ Finish
Spec == Init /\ [][Next]_vars /\ WF_vars(Next)

---------------------------------------------------------------------------
Done == pc = "done"
Sum(s) == IF s = <<>> THEN 0 ELSE LET f[i \in 0..Len(s)] == IF i = 0 THEN 0 ELSE f[i - 1] + s[i] IN f[Len(s)]

\* C03: total and MD5 input are exactly what was consumed, in order
InfoTruth == /\ info.total = Sum(consumed)
             /\ info.hashed = [i \in 1..Len(consumed) |-> i - 1]
             /\ (Done /\ result = "ok") => info.total = sc.len

\* C04: with at least one frame, max = BS, MinBS <= min <= every non-final block, frame sizes exact
InfoBounds ==
  (Done /\ result = "ok" /\ Len(frames) >= 1) =>
     /\ info.maxbs = BS
     /\ info.minbs >= MinBS
     /\ \A i \in 1..(Len(frames) - 1) : info.minbs <= frames[i].n
     /\ info.minfs = CHOOSE m \in {frames[i].size : i \in 1..Len(frames)} : \A i \in 1..Len(frames) : m <= frames[i].size
     /\ info.maxfs = CHOOSE m \in {frames[i].size : i \in 1..Len(frames)} : \A i \in 1..Len(frames) : m >= frames[i].size

\* C02: every frame but the last holds exactly BS samples, the last 1..BS
BlockShape == (Done /\ result = "ok") =>
                 /\ \A i \in 1..(Len(frames) - 1) : frames[i].n = BS
                 /\ Len(frames) >= 1 => frames[Len(frames)].n \in 1..BS
                 /\ Len(frames) = NBlocks(sc.len)

\* the closed form ParEncoder compares with (first fault in stream order decides)
FirstBad(upto) == IF \E j \in sc.bad : j < upto THEN CHOOSE j \in sc.bad : j < upto /\ \A i \in sc.bad : i < upto => j <= i ELSE 0 - 1
SeqResultClosedForm ==
  LET N == NBlocks(sc.len)
      reach == IF sc.failAt = NoFail \/ sc.failAt > N THEN N ELSE sc.failAt
  IN IF FirstBad(reach) # 0 - 1 THEN "err:config"
     ELSE IF sc.failAt # NoFail /\ sc.failAt <= N THEN "err:source" ELSE "ok"
SeqResultMatches == Done => result = SeqResultClosedForm

Termination == <>Done
=============================================================================
