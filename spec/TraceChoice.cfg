SPECIFICATION TSpec
CONSTANTS
  MaxBits = 0
POSTCONDITION Consumed
CHECK_DEADLOCK FALSE
