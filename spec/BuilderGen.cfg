SPECIFICATION Spec
CONSTANTS
  MaxLen = 3
CHECK_DEADLOCK FALSE
