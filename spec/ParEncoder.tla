----------------------------- MODULE ParEncoder -----------------------------
(***************************************************************************)
(* The multi-thread encoder of src/par.rs as a TLA+ protocol: one feeder   *)
(* (the calling thread), W workers, one hashing thread, three bounded      *)
(* queues (refill, encode, process), per-buffer mutexes and the ordered    *)
(* result map.  One action per critical section; the program counters are  *)
(* the names of the observation points compiled into par.rs under          *)
(* --cfg flacenc_verif, so that a behaviour of this module *is* a thread   *)
(* schedule the harness can force onto the real threads (C05, C06, C03).   *)
(*                                                                         *)
(* The source is abstract: it yields blocks 0..N-1 (block k is "bad" when  *)
(* k \in Bad: a sample outside the declared width), its read number FailAt *)
(* returns an error (NoFail = none), and it may or may not call fill with  *)
(* an empty slice at end of input (FillAtEof).                             *)
(*                                                                         *)
(* Variant = "repaired" is the protocol after the fix commits ea786d6 and  *)
(* 712bdac; Variant = "pinned" is the protocol as it was at the pinned     *)
(* commit (named deviations: FeederReturnsEarly, WorkerDiesHoldingBuffer,  *)
(* HasherPanicsOnDisconnect), kept so that the counterexamples of the      *)
(* known findings stay reproducible.                                       *)
(***************************************************************************)
EXTENDS Naturals, Integers, Sequences, FiniteSets, TLC

CONSTANTS Ws,         \* candidate numbers of workers (0 allowed: the environment override could produce it)
          Ns,         \* candidate numbers of blocks held by the source
          M,          \* buffers per worker (constant::par::FRAMEBUF_MULTIPLICITY = 2)
          PQCAP,      \* capacity of the process queue (16 in the code)
          FailAts,    \* set of candidate indices of the failing read (NoFail = 99 for none)
          BadSets,    \* set of candidate sets of bad block indices
          EofFills,   \* subset of BOOLEAN: does the source call fill with an empty slice at end of input
          Variant     \* "repaired" | "pinned"

NoFail == 99
Stop == 0 - 1               \* the None token / the empty byte vector

VARIABLES
  mpc, mi, fbuf, fcount, reads, rdres,   \* calling thread
  wpc, wbuf, wnum, wok,                  \* workers
  hpc, hcur,                             \* hashing thread
  encq, refq, pq,                        \* queues
  lock, bufnum, bufblk,                  \* frame buffers
  sink, hashed, total,                   \* results
  result, pqSenders,                     \* outcome of the call; is the process queue's sender alive
  wblk,                                  \* block a worker's frame was made from
  cfgv                                   \* the fault scenario of this behaviour (chosen in Init, never changes)

vars == << mpc, mi, fbuf, fcount, reads, rdres, wpc, wbuf, wnum, wok, hpc, hcur, encq, refq, pq,
           lock, bufnum, bufblk, sink, hashed, total, result, pqSenders, wblk, cfgv >>

W == cfgv.W
N == cfgv.N
Workers == 1..W
Bufs == 1..(W * M)
QCAP == W * M + 1
FailAt == cfgv.failAt
Bad == cfgv.bad
FillAtEof == cfgv.fill

Init ==
  /\ cfgv \in [W : Ws, N : Ns, failAt : FailAts, bad : BadSets, fill : EofFills]
  /\ wblk = [w \in Workers |-> Stop]
  /\ mpc = "m.begin" /\ mi = 0 /\ fbuf = 0 /\ fcount = 0 /\ reads = 0 /\ rdres = "none"
  /\ wpc = [w \in Workers |-> "none"] /\ wbuf = [w \in Workers |-> 0]
  /\ wnum = [w \in Workers |-> Stop] /\ wok = [w \in Workers |-> TRUE]
  /\ hpc = "none" /\ hcur = Stop
  /\ encq = <<>> /\ refq = <<>> /\ pq = <<>>
  /\ lock = [b \in Bufs |-> 0] /\ bufnum = [b \in Bufs |-> Stop] /\ bufblk = [b \in Bufs |-> Stop]
  /\ sink = {} /\ hashed = <<>> /\ total = 0
  /\ result = "none" /\ pqSenders = TRUE

Exited(pc) == pc \in {"done", "dead"}

---------------------------------------------------------------------------
(* The calling thread: spawns, feeds, stops, joins, finalises.             *)

UnchM == UNCHANGED << wpc, wbuf, wnum, wok, hpc, hcur, wblk, cfgv >>

\* what single-threaded encoding returns for the same source (coding.rs): blocks are read and
\* encoded in turn, so the first fault in stream order decides
FirstBad(upto) == IF \E k \in Bad : k < upto THEN CHOOSE k \in Bad : k < upto /\ \A j \in Bad : j < upto => k <= j ELSE Stop
SeqResult ==
  LET reach == IF FailAt = NoFail \/ FailAt > N THEN N ELSE FailAt   \* blocks read before a failing read
  IN IF FirstBad(reach) # Stop THEN "err:config"
     ELSE IF FailAt # NoFail /\ FailAt <= N THEN "err:source"
     ELSE "ok"

Main ==
  \/ /\ mpc = "m.begin"
     /\ mpc' = IF W > 0 THEN "m.spawn" ELSE "m.hspawn"
     /\ refq' = [i \in 1..(W * M) |-> i]          \* ParFrameBuf::new pre-loads the refill queue
     /\ UNCHANGED << mi, fbuf, fcount, reads, rdres, encq, pq, lock, bufnum, bufblk, sink, hashed, total, result, pqSenders >>
     /\ UnchM
  \/ /\ mpc = "m.spawn"                            \* thread::spawn of worker mi+1
     /\ wpc' = [wpc EXCEPT ![mi + 1] = "w.start"]
     /\ mi' = IF mi + 1 = W THEN 0 ELSE mi + 1
     /\ mpc' = IF mi + 1 = W THEN "m.hspawn" ELSE "m.spawn"
     /\ UNCHANGED << fbuf, fcount, reads, rdres, wbuf, wnum, wok, hpc, hcur, encq, refq, pq, lock, bufnum, bufblk, sink, hashed, total, result, pqSenders, wblk, cfgv >>
  \/ /\ mpc = "m.hspawn"                           \* ParContext::new spawns the hashing thread
     /\ hpc' = "h.recv" /\ mpc' = "f.recv"
     /\ UNCHANGED << mi, fbuf, fcount, reads, rdres, wpc, wbuf, wnum, wok, hcur, encq, refq, pq, lock, bufnum, bufblk, sink, hashed, total, result, pqSenders, wblk, cfgv >>
  \/ /\ mpc = "f.recv" /\ refq # <<>>               \* blocks while no buffer is free
     /\ fbuf' = Head(refq) /\ refq' = Tail(refq) /\ mpc' = "f.lock"
     /\ UNCHANGED << mi, fcount, reads, rdres, encq, pq, lock, bufnum, bufblk, sink, hashed, total, result, pqSenders >>
     /\ UnchM
  \/ /\ mpc = "f.lock" /\ lock[fbuf] = 0
     /\ lock' = [lock EXCEPT ![fbuf] = 100] /\ mpc' = "f.read"
     /\ UNCHANGED << mi, fbuf, fcount, reads, rdres, encq, refq, pq, bufnum, bufblk, sink, hashed, total, result, pqSenders >>
     /\ UnchM
  \/ /\ mpc = "f.read"                             \* Source::read_samples up to the call of Fill
     /\ reads' = reads + 1
     /\ IF reads = FailAt
        THEN /\ rdres' = "err"
             /\ mpc' = IF Variant = "pinned" THEN "m.return" ELSE "f.readerr"
             \* pinned: `?` leaves the function at once: lock released by the guard, the context
             \* (and with it the only sender of the process queue) is dropped, nobody is stopped
             /\ lock' = IF Variant = "pinned" THEN [lock EXCEPT ![fbuf] = 0] ELSE lock
             /\ pqSenders' = IF Variant = "pinned" THEN FALSE ELSE pqSenders
             /\ result' = IF Variant = "pinned" THEN "err:source" ELSE result
             /\ UNCHANGED << bufblk >>
        ELSE IF reads < N
        THEN /\ rdres' = "data" /\ mpc' = "f.pqsend"
             /\ bufblk' = [bufblk EXCEPT ![fbuf] = reads]         \* FrameBuf::fill_*
             /\ UNCHANGED << lock, pqSenders, result >>
        ELSE /\ rdres' = "eof" /\ mpc' = IF FillAtEof THEN "f.pqsend" ELSE "f.readdone"
             /\ UNCHANGED << lock, pqSenders, result, bufblk >>
     /\ UNCHANGED << mi, fbuf, fcount, encq, refq, pq, bufnum, sink, hashed, total >>
     /\ UnchM
  \/ /\ mpc = "f.pqsend" /\ Len(pq) < PQCAP         \* ParContext::fill_* -> enqueue_buffer
     /\ pq' = Append(pq, IF rdres = "data" THEN reads - 1 ELSE Stop)
     /\ mpc' = "f.readdone"
     /\ UNCHANGED << mi, fbuf, fcount, reads, rdres, encq, refq, lock, bufnum, bufblk, sink, hashed, total, result, pqSenders >>
     /\ UnchM
  \/ /\ mpc = "f.readdone"
     /\ IF rdres = "eof"
        THEN /\ lock' = [lock EXCEPT ![fbuf] = 0]               \* break 'feed drops the guard
             /\ mpc' = (IF W > 0 THEN "f.stop" ELSE "m.hstop") /\ mi' = 0
             /\ UNCHANGED << bufnum >>
        ELSE /\ bufnum' = [bufnum EXCEPT ![fbuf] = fcount]           \* number fixed under the lock
             /\ mpc' = "f.unlock" /\ UNCHANGED << lock, mi >>
     /\ UNCHANGED << fbuf, fcount, reads, rdres, encq, refq, pq, bufblk, sink, hashed, total, result, pqSenders >>
     /\ UnchM
  \/ /\ mpc = "f.unlock"
     /\ lock' = [lock EXCEPT ![fbuf] = 0] /\ fcount' = fcount + 1 /\ mpc' = "f.enq"
     /\ UNCHANGED << mi, fbuf, reads, rdres, encq, refq, pq, bufnum, bufblk, sink, hashed, total, result, pqSenders >>
     /\ UnchM
  \/ /\ mpc = "f.enq" /\ Len(encq) < QCAP
     /\ encq' = Append(encq, fbuf) /\ mpc' = "f.recv" /\ fbuf' = 0
     /\ UNCHANGED << mi, fcount, reads, rdres, refq, pq, lock, bufnum, bufblk, sink, hashed, total, result, pqSenders >>
     /\ UnchM
  \/ /\ mpc = "f.readerr"                           \* repaired: drop the guard, then stop the workers
     /\ lock' = [lock EXCEPT ![fbuf] = 0]
     /\ mpc' = (IF W > 0 THEN "f.stop" ELSE "m.hstop") /\ mi' = 0
     /\ UNCHANGED << fbuf, fcount, reads, rdres, encq, refq, pq, bufnum, bufblk, sink, hashed, total, result, pqSenders >>
     /\ UnchM
  \/ /\ mpc = "f.stop" /\ Len(encq) < QCAP          \* one None per worker
     /\ encq' = Append(encq, Stop)
     /\ mi' = IF mi + 1 = W THEN 0 ELSE mi + 1
     /\ mpc' = IF mi + 1 = W THEN "m.hstop" ELSE "f.stop"
     /\ UNCHANGED << fbuf, fcount, reads, rdres, refq, pq, lock, bufnum, bufblk, sink, hashed, total, result, pqSenders >>
     /\ UnchM
  \/ /\ mpc = "m.hstop" /\ Len(pq) < PQCAP          \* ParContext::request_stop
     /\ pq' = Append(pq, Stop) /\ mpc' = "m.hjoin"
     /\ UNCHANGED << mi, fbuf, fcount, reads, rdres, encq, refq, lock, bufnum, bufblk, sink, hashed, total, result, pqSenders >>
     /\ UnchM
  \/ /\ mpc = "m.hjoin" /\ Exited(hpc)              \* ParContext::finalize joins the hashing thread
     /\ mpc' = IF hpc = "dead" THEN "m.return" ELSE IF W > 0 THEN "m.join" ELSE "m.finalize"
     /\ result' = IF hpc = "dead" THEN "panic" ELSE result
     /\ mi' = 0
     /\ UNCHANGED << fbuf, fcount, reads, rdres, encq, refq, pq, lock, bufnum, bufblk, sink, hashed, total, pqSenders >>
     /\ UnchM
  \/ /\ mpc = "m.join" /\ Exited(wpc[mi + 1])
     /\ IF wpc[mi + 1] = "dead"
        THEN mpc' = "m.return" /\ result' = "panic" /\ mi' = mi     \* join().expect() panics
        ELSE /\ mi' = IF mi + 1 = W THEN 0 ELSE mi + 1
             /\ mpc' = IF mi + 1 = W THEN "m.finalize" ELSE "m.join"
             /\ UNCHANGED result
     /\ UNCHANGED << fbuf, fcount, reads, rdres, encq, refq, pq, lock, bufnum, bufblk, sink, hashed, total, pqSenders >>
     /\ UnchM
  \/ /\ mpc = "m.finalize"                          \* drain the map in frame order, first error wins
     /\ result' = IF \E e \in sink : ~e[3] THEN "err:config"
                  ELSE IF rdres = "err" THEN "err:source" ELSE "ok"
     /\ mpc' = "m.return"
     /\ UNCHANGED << mi, fbuf, fcount, reads, rdres, encq, refq, pq, lock, bufnum, bufblk, sink, hashed, total, pqSenders >>
     /\ UnchM
  \/ /\ mpc = "m.return"
     /\ mpc' = "done" /\ pqSenders' = FALSE
     /\ UNCHANGED << mi, fbuf, fcount, reads, rdres, encq, refq, pq, lock, bufnum, bufblk, sink, hashed, total, result >>
     /\ UnchM

---------------------------------------------------------------------------
(* Worker w                                                                *)

UnchW == UNCHANGED << mpc, mi, fbuf, fcount, reads, rdres, hpc, hcur, pq, hashed, total, result, pqSenders, cfgv >>

Worker(w) ==
  /\ w \in Workers
  /\ \/ /\ wpc[w] = "w.start"
        /\ wpc' = [wpc EXCEPT ![w] = "w.pop"]
        /\ UNCHANGED << wbuf, wnum, wok, wblk, encq, refq, lock, bufnum, bufblk, sink >>
     \/ /\ wpc[w] = "w.pop" /\ encq # <<>>
        /\ encq' = Tail(encq)
        /\ IF Head(encq) = Stop
           THEN wpc' = [wpc EXCEPT ![w] = "w.exit"] /\ UNCHANGED wbuf
           ELSE wpc' = [wpc EXCEPT ![w] = "w.lock"] /\ wbuf' = [wbuf EXCEPT ![w] = Head(encq)]
        /\ UNCHANGED << wnum, wok, wblk, refq, lock, bufnum, bufblk, sink >>
     \/ /\ wpc[w] = "w.lock" /\ lock[wbuf[w]] = 0
        /\ lock' = [lock EXCEPT ![wbuf[w]] = w]
        /\ wnum' = [wnum EXCEPT ![w] = bufnum[wbuf[w]]]          \* frame number read under the lock
        /\ wpc' = [wpc EXCEPT ![w] = "w.encode"]
        /\ UNCHANGED << wbuf, wok, wblk, encq, refq, bufnum, bufblk, sink >>
     \/ /\ wpc[w] = "w.encode"                                   \* encode, then the guard is dropped
        /\ lock' = [lock EXCEPT ![wbuf[w]] = 0]
        /\ wok' = [wok EXCEPT ![w] = (bufblk[wbuf[w]] \notin Bad)]
        /\ wblk' = [wblk EXCEPT ![w] = bufblk[wbuf[w]]]
        /\ IF Variant = "pinned" /\ bufblk[wbuf[w]] \in Bad
           THEN wpc' = [wpc EXCEPT ![w] = "dead"]                \* unreachable!(): WorkerDiesHoldingBuffer
           ELSE wpc' = [wpc EXCEPT ![w] = "w.refill"]
        /\ sink' = sink /\ UNCHANGED << wbuf, wnum, encq, refq, bufnum, bufblk >>
     \/ /\ wpc[w] = "w.refill" /\ Len(refq) < QCAP
        /\ refq' = Append(refq, wbuf[w])
        /\ wpc' = [wpc EXCEPT ![w] = "w.push"]
        /\ UNCHANGED << wbuf, wnum, wok, wblk, encq, lock, bufnum, bufblk, sink >>
     \/ /\ wpc[w] = "w.push"
        \* result map keyed by frame number; the content is identified by the block it was made from.
        \* (the buffer may already have been refilled: the frame was built before the guard was dropped,
        \*  which the model records in wnum/wblk at w.lock / w.encode time)
        /\ sink' = sink \cup { << wnum[w], wblk[w], wok[w] >> }
        /\ wpc' = [wpc EXCEPT ![w] = "w.pop"]
        /\ wbuf' = [wbuf EXCEPT ![w] = 0]
        /\ UNCHANGED << wnum, wok, wblk, encq, refq, lock, bufnum, bufblk >>
     \/ /\ wpc[w] = "w.exit"
        /\ wpc' = [wpc EXCEPT ![w] = "done"]
        /\ UNCHANGED << wbuf, wnum, wok, wblk, encq, refq, lock, bufnum, bufblk, sink >>
  /\ UnchW

---------------------------------------------------------------------------
(* Hashing thread                                                          *)

Hasher ==
  /\ \/ /\ hpc = "h.recv" /\ pq # <<>>
        /\ pq' = Tail(pq) /\ hcur' = Head(pq)
        /\ hpc' = IF Head(pq) = Stop THEN "h.exit" ELSE "h.update"
        /\ UNCHANGED << hashed, total >>
     \/ /\ hpc = "h.recv" /\ pq = <<>> /\ ~pqSenders             \* HasherPanicsOnDisconnect
        /\ hpc' = "dead" /\ UNCHANGED << pq, hcur, hashed, total >>
     \/ /\ hpc = "h.update"
        /\ hashed' = Append(hashed, hcur) /\ total' = total + 1
        /\ hpc' = "h.recv" /\ UNCHANGED << pq, hcur >>
     \/ /\ hpc = "h.exit"
        /\ hpc' = "done" /\ UNCHANGED << pq, hcur, hashed, total >>
  /\ UNCHANGED << mpc, mi, fbuf, fcount, reads, rdres, wpc, wbuf, wnum, wok, encq, refq,
                  lock, bufnum, bufblk, sink, result, pqSenders, wblk, cfgv >>

\* one named disjunct per thread: TLC's -dump dot,actionlabels labels every edge with the thread
Wk1 == Worker(1)
Wk2 == Worker(2)
Wk3 == Worker(3)
Wk4 == Worker(4)
Next == Main \/ Hasher \/ Wk1 \/ Wk2 \/ Wk3 \/ Wk4

Fairness == WF_vars(Main) /\ WF_vars(Hasher) /\ \A w \in 1..4 : WF_vars(Worker(w))
Spec == Init /\ [][Next]_vars /\ Fairness

---------------------------------------------------------------------------
(* Properties                                                              *)

Returned == mpc = "done"

TypeOK ==
  /\ \A b \in Bufs : lock[b] \in {0, 100} \cup Workers
  /\ Len(encq) <= QCAP /\ Len(refq) <= QCAP /\ Len(pq) <= PQCAP

\* a buffer id is in at most one place
Places(b) ==
  (IF \E i \in 1..Len(refq) : refq[i] = b THEN 1 ELSE 0) +
  (IF \E i \in 1..Len(encq) : encq[i] = b THEN 1 ELSE 0) +
  (IF fbuf = b THEN 1 ELSE 0) +
  Cardinality({w \in Workers : wbuf[w] = b /\ wpc[w] \in {"w.lock", "w.encode", "w.refill"}})
BufferInOnePlace == \A b \in Bufs : Places(b) <= 1
NoDuplicatesInQueues ==
  /\ \A i, j \in 1..Len(refq) : i # j => refq[i] # refq[j]
  /\ \A i, j \in 1..Len(encq) : (i # j /\ encq[i] # Stop) => encq[i] # encq[j]

\* the lock holder is the thread whose pc is inside the critical section for that buffer
LockDiscipline ==
  \A b \in Bufs :
     /\ lock[b] = 100 => fbuf = b /\ mpc \in {"f.read", "f.pqsend", "f.readdone", "f.unlock", "f.readerr"}
     /\ lock[b] \in Workers => wbuf[lock[b]] = b /\ wpc[lock[b]] = "w.encode"

\* C05: frame numbers are assigned once, in feed order, and the frame stored under number k was
\* made from block k
FrameNumbering ==
  /\ \A e \in sink : e[1] = e[2]
  /\ \A e, g \in sink : e[1] = g[1] => e = g
  /\ \A w \in Workers : wpc[w] \in {"w.encode", "w.refill", "w.push"} => wnum[w] # Stop

\* C05/C06: a successful return holds every frame exactly once, in order
SinkComplete == (Returned /\ result = "ok") => { e[1] : e \in sink } = 0..(N - 1) /\ Cardinality(sink) = N

\* C03: the hashing thread consumed every block, in feed order, before the digest was read
HashedInOrder ==
  /\ \A i \in 1..Len(hashed) : hashed[i] = i - 1
  /\ (Returned /\ result = "ok") => Len(hashed) = N /\ total = N

\* C06: once the call has returned no thread it started is still running; nobody panicked;
\* the error kind is the one single-threaded encoding returns
NoLeak == Returned => (\A w \in Workers : wpc[w] \in {"none", "done", "dead"}) /\ hpc \in {"none", "done", "dead"}
NoPanic == (\A w \in Workers : wpc[w] # "dead") /\ hpc # "dead" /\ result # "panic"
SameKindAsSequential == Returned => result = SeqResult

\* liveness: under weak fairness of every thread the call returns
Termination == <>Returned
AllThreadsEnd == <>[](Returned /\ \A w \in Workers : Exited(wpc[w]) /\ Exited(hpc))
=============================================================================
