------------------------------- MODULE TraceSeq -------------------------------
(***************************************************************************)
(* Binds EncoderSeq (the single-thread entry point as a sequential machine) *)
(* to the implementation through what a user-written Source observes: the *)
(* sequence of read_samples calls (block-size argument, samples returned   *)
(* or error) and the result of the call.                                   *)
(*                                                                         *)
(*   seq  : scenario [bs, len, fail (99 = none), bad] - resets the machine *)
(*   read : k-th call [arg, ret]  - consumed by EncoderSeq!Read: the call  *)
(*          index, the block-size argument and what the source returned    *)
(*          (block length / 0 at the end / -1 for the failing read) must   *)
(*          be what the machine does at that point                         *)
(*   done : result kind and, for "ok", the STREAMINFO bounds, total and    *)
(*          frame count - must equal the machine's final state             *)
(* Start, Verify, EncodeAdd and Finish are internal steps (no event).      *)
(* Every step is deterministic, so TLC walks one path; the register        *)
(* TLCGet(1) holds the index of the next unconsumed event, and the         *)
(* POSTCONDITION demands that all were consumed.  A trace that the machine *)
(* cannot follow stops early: the encoder read once more / once less /     *)
(* with another block size than EncoderSeq says, or reported another       *)
(* result.                                                                 *)
(***************************************************************************)
EXTENDS Naturals, Integers, Sequences, SequencesExt, FiniteSets, TLC, Json, IOUtils
Rec == ndJsonDeserialize(IOEnv.TRACE)
CONSTANT BSC              \* the block size of every scenario in the trace (a constant: EncoderSeq's BS cannot be a variable)
VARIABLES l, bsv, id,
          sc, pc, reads, consumed, cur, frames, info, result
ES == INSTANCE EncoderSeq WITH BS <- BSC, MinBS <- 16, Lens <- {}, FailAts <- {}, BadSets <- {}, Sizes <- {1}, Variant <- "repaired"
esvars == << sc, pc, reads, consumed, cur, frames, info, result >>
Ev == Rec[l]
Note(n) == TLCSet(1, n)

Init == /\ l = 1 /\ bsv = 1 /\ id = "" /\ Note(1)
        /\ sc = [len |-> 0, failAt |-> 99, bad |-> {}] /\ pc = "idle" /\ reads = 0 /\ consumed = <<>> /\ cur = 0
        /\ frames = <<>> /\ result = "none"
        /\ info = [minbs |-> ES!Huge, maxbs |-> 0, minfs |-> ES!Huge, maxfs |-> 0, total |-> 0, hashed |-> <<>>]

SeqEv == /\ l <= Len(Rec) /\ Ev.ev = "seq" /\ pc \in {"idle"}
       /\ Assert(Ev.bs = BSC, "scenario with another block size than the constant BSC")
       /\ l' = l + 1 /\ Note(l + 1) /\ bsv' = Ev.bs /\ id' = Ev.id
       /\ sc' = [len |-> Ev.len, failAt |-> Ev.fail, bad |-> {Ev.bad[i] : i \in 1..Len(Ev.bad)}]
       /\ pc' = "start" /\ reads' = 0 /\ consumed' = <<>> /\ cur' = 0 /\ frames' = <<>> /\ result' = "none"
       /\ info' = [minbs |-> ES!Huge, maxbs |-> 0, minfs |-> ES!Huge, maxfs |-> 0, total |-> 0, hashed |-> <<>>]

ReadEv == /\ l <= Len(Rec) /\ Ev.ev = "read"
          /\ ES!Read
          /\ Ev.k = reads /\ Ev.arg = bsv
          /\ (pc' = "verify" => Ev.ret = cur')
          /\ (pc' = "finish" => Ev.ret = 0)
          /\ (pc' = "done" => Ev.ret = 0 - 1)
          /\ l' = l + 1 /\ Note(l + 1) /\ UNCHANGED <<bsv, id>>

Internal == /\ (ES!Start \/ ES!Verify \/ ES!EncodeAdd \/ ES!Finish)
            /\ UNCHANGED <<l, bsv, id>>

DoneEv == /\ l <= Len(Rec) /\ Ev.ev = "done" /\ pc = "done"
          /\ Ev.result = result
          /\ (result = "ok" => /\ Ev.info.total = info.total /\ Ev.info.nframes = Len(frames)
                               /\ Ev.info.minbs = info.minbs /\ Ev.info.maxbs = info.maxbs)
          /\ PrintT("VERDICT|" \o id \o "|pass|")
          /\ l' = l + 1 /\ Note(l + 1) /\ pc' = "idle"
          /\ UNCHANGED <<bsv, id, sc, reads, consumed, cur, frames, info, result>>

Next == SeqEv \/ ReadEv \/ Internal \/ DoneEv
Spec == Init /\ [][Next]_<<l, bsv, id, esvars>>
Consumed == \/ TLCGet(1) = Len(Rec) + 1
            \/ (PrintT("VERDICT|" \o (IF TLCGet(1) <= Len(Rec) THEN "event-" \o ToString(TLCGet(1)) ELSE "end") \o
                       "|DIVERGED|the machine cannot follow the trace at event " \o ToString(TLCGet(1)) \o ": "
                       \o (IF TLCGet(1) <= Len(Rec) THEN ToString(Rec[TLCGet(1)]) ELSE "") \o " ;; ") /\ FALSE)
=============================================================================
