------------------------------ MODULE ConfigGen ------------------------------
(***************************************************************************)
(* Generator: TLC enumerates the configuration vectors of Config.tla with  *)
(* the verdict the specification demands (C07), and TOML documents (which  *)
(* fields are stated) with the configuration they must parse to (C19).     *)
(* Each vector / document is one initial state; the files are written by   *)
(* the ASSUMEs below (IOEnv.OUT07 / IOEnv.OUT19), the harness replays them *)
(* against the real library.                                               *)
(***************************************************************************)
EXTENDS Config, Json, IOUtils, SequencesExt, FiniteSetsExt

CONSTANTS Par,            \* the library is built with the "par" feature (default of `multithread`)
          Experimental,   \* ... with the "experimental" feature
          DocMode         \* "pairs" | "all": which omission subsets to generate

V == Vectors(Par)

Vec07 == { [cfg |-> c, valid |-> Valid(c, Experimental), rejects |-> Rejects(c, Experimental)] : c \in V }

\* C19 documents: a fully populated base configuration (non-default in every field, TOML-representable)
\* from which a subset of fields is omitted
Base1 == [block_size |-> 123, multithread |-> ~Par, workers |-> 3,
          use_leftside |-> FALSE, use_rightside |-> FALSE, use_midside |-> FALSE,
          use_constant |-> FALSE, use_fixed |-> FALSE, use_lpc |-> FALSE,
          fixed_max_order |-> 2, partitions |-> 7, lpc_order |-> 5, quant_precision |-> 9,
          use_direct_mse |-> TRUE, mae_steps |-> 2, alpha |-> "one", max_parameter |-> 6]
Base2 == [Base1 EXCEPT !.partitions = BitCount, !.alpha = "rect", !.block_size = 31, !.lpc_order = 33]

OmitSets ==
  IF DocMode = "all" THEN SUBSET Fields
  ELSE { {} } \cup { {f} : f \in Fields } \cup { {f, g} : f \in Fields, g \in Fields }
       \cup { Fields \ {f} : f \in Fields } \cup { Fields }

Docs19 == { [base |-> b, omitted |-> o, expect |-> Parse(Fields \ o, b, Par),
             valid |-> Valid(Parse(Fields \ o, b, Par), Experimental)]
            : b \in {Base1, Base2}, o \in OmitSets }

ASSUME IOEnv.OUT07 = "" \/ ndJsonSerialize(IOEnv.OUT07, SetToSeq(Vec07))
ASSUME IOEnv.OUT19 = "" \/ ndJsonSerialize(IOEnv.OUT19, SetToSeq(Docs19))
ASSUME PrintT(<<"GENERATED", Cardinality(Vec07), Cardinality(Docs19)>>)

\* design-level sanity, checked on every vector (one initial state each)
VARIABLE v
Init == v \in V
Next == UNCHANGED v
Spec == Init /\ [][Next]_v
DefaultIsValid == Valid(Default(Par), Experimental)
VerdictExplained == Valid(v, Experimental) <=> (Rejects(v, Experimental) = {})
=============================================================================
