------------------------------- MODULE Md5 -------------------------------
(***************************************************************************)
(* MD5 (RFC 1321) on 16-bit limbs: a 32-bit word is <<hi, lo>>.  Used by   *)
(* property C03: TLC computes the digest of the serialised input itself,   *)
(* so the library's md-5 dependency is not part of the trusted base.       *)
(* The computation is incremental: Md5Feed consumes whole 64-byte chunks   *)
(* and returns the unconsumed tail, Md5Finish pads and finalises.          *)
(***************************************************************************)
EXTENDS Naturals, Sequences, SequencesExt, Bitwise, TLC, Bits

M16 == 65536
Add2(x, y) == LET lo == x[2] + y[2] IN << (x[1] + y[1] + (lo \div M16)) % M16, lo % M16 >>
And2(x, y) == << x[1] & y[1], x[2] & y[2] >>
Or2(x, y)  == << x[1] | y[1], x[2] | y[2] >>
Xor2(x, y) == << x[1] ^^ y[1], x[2] ^^ y[2] >>
Not2(x)    == << 65535 - x[1], 65535 - x[2] >>
Rotl(x, s) == LET y == IF s >= 16 THEN << x[2], x[1] >> ELSE x
                  r == s % 16
              IN IF r = 0 THEN y ELSE
                 << ((y[1] * 2^r) % M16) + (y[2] \div 2^(16 - r)),
                    ((y[2] * 2^r) % M16) + (y[1] \div 2^(16 - r)) >>

K == <<
  <<55146, 42104>>, <<59591, 46934>>, <<9248, 28891>>, <<49597, 52974>>,
  <<62844, 4015>>, <<18311, 50730>>, <<43056, 17939>>, <<64838, 38145>>,
  <<27008, 39128>>, <<35652, 63407>>, <<65535, 23473>>, <<35164, 55230>>,
  <<27536, 4386>>, <<64920, 29075>>, <<42617, 17294>>, <<18868, 2081>>,
  <<63006, 9570>>, <<49216, 45888>>, <<9822, 23121>>, <<59830, 51114>>,
  <<54831, 4189>>, <<580, 5203>>, <<55457, 59009>>, <<59347, 64456>>,
  <<8673, 52710>>, <<49975, 2006>>, <<62677, 3463>>, <<17754, 5357>>,
  <<43491, 59653>>, <<64751, 41976>>, <<26479, 729>>, <<36138, 19594>>,
  <<65530, 14658>>, <<34673, 63105>>, <<28061, 24866>>, <<64997, 14348>>,
  <<42174, 59972>>, <<19422, 53161>>, <<63163, 19296>>, <<48831, 48240>>,
  <<10395, 32454>>, <<60065, 10234>>, <<54511, 12421>>, <<1160, 7429>>,
  <<55764, 53305>>, <<59099, 39397>>, <<8098, 31992>>, <<50348, 22117>>,
  <<62505, 8772>>, <<17194, 65431>>, <<43924, 9127>>, <<64659, 41017>>,
  <<25947, 22979>>, <<36620, 52370>>, <<65519, 62589>>, <<34180, 24017>>,
  <<28584, 32335>>, <<65068, 59104>>, <<41729, 17172>>, <<19976, 4513>>,
  <<63315, 32386>>, <<48442, 62005>>, <<10967, 53947>>, <<60294, 54161>> >>

S == << 7, 12, 17, 22, 7, 12, 17, 22, 7, 12, 17, 22, 7, 12, 17, 22, 5, 9, 14, 20, 5, 9, 14, 20, 5, 9, 14, 20, 5, 9, 14, 20, 4, 11, 16, 23, 4, 11, 16, 23, 4, 11, 16, 23, 4, 11, 16, 23, 6, 10, 15, 21, 6, 10, 15, 21, 6, 10, 15, 21, 6, 10, 15, 21 >>

Md5Init == << <<26437, 8961>>, <<61389, 43913>>, <<39098, 56574>>, <<4146, 21622>> >>
\* = 0x67452301, 0xefcdab89, 0x98badcfe, 0x10325476

\* little-endian 32-bit word j (0-based) of the 64-byte chunk starting after offset `off` of b
Word(b, off, j) == << b[off + 4*j + 4] * 256 + b[off + 4*j + 3], b[off + 4*j + 2] * 256 + b[off + 4*j + 1] >>

Md5Block(st, b, off) ==
  LET r == FoldLeft(LAMBDA v, i :
        LET A == v[1]  B == v[2]  C == v[3]  D == v[4]
            f == IF i < 16 THEN Or2(And2(B, C), And2(Not2(B), D))
                 ELSE IF i < 32 THEN Or2(And2(D, B), And2(Not2(D), C))
                 ELSE IF i < 48 THEN Xor2(B, Xor2(C, D)) ELSE Xor2(C, Or2(B, Not2(D)))
            g == IF i < 16 THEN i ELSE IF i < 32 THEN (5*i + 1) % 16
                 ELSE IF i < 48 THEN (3*i + 5) % 16 ELSE (7*i) % 16
        IN TLCEval(<< D, Add2(B, Rotl(Add2(Add2(Add2(A, f), K[i+1]), Word(b, off, g)), S[i+1])), B, C >>),
        st, Idx(0, 63))
  IN << Add2(st[1], r[1]), Add2(st[2], r[2]), Add2(st[3], r[3]), Add2(st[4], r[4]) >>

\* state: [h (4 words), tail (unprocessed bytes, < 64), len (total bytes so far, as <<hi, lo>> radix 2^24)]
Md5Start == [h |-> Md5Init, tail |-> <<>>, lenHi |-> 0, lenLo |-> 0]

Md5Feed(st, bytes) ==
  LET data   == TLCEval(st.tail \o bytes)
      nfull  == Len(data) \div 64
      h      == FoldLeft(LAMBDA a, c : TLCEval(Md5Block(a, data, 64 * c)), st.h, Idx(0, nfull - 1))
      lo     == st.lenLo + Len(bytes)
  IN [h |-> h, tail |-> SubSeq(data, 64 * nfull + 1, Len(data)),
      lenHi |-> st.lenHi + (lo \div 16777216), lenLo |-> lo % 16777216]

\* digest as 16 bytes
Md5Finish(st) ==
  LET tl     == Len(st.tail)
      padLen == IF tl < 56 THEN 56 - tl ELSE 120 - tl
      \* message length in bits, 64-bit little endian; bytes = lenHi * 2^24 + lenLo
      bitsLo == (st.lenLo % 2097152) * 8                          \* low 24 bits of the bit count
      carry  == st.lenLo \div 2097152                             \* 3 bits
      bitsHi == st.lenHi * 8 + carry                               \* remaining bits (< 2^27 here)
      lenB   == << bitsLo % 256, (bitsLo \div 256) % 256, bitsLo \div 65536,
                   bitsHi % 256, (bitsHi \div 256) % 256, (bitsHi \div 65536) % 256, bitsHi \div 16777216, 0 >>
      data   == st.tail \o <<128>> \o [i \in 1..(padLen - 1) |-> 0] \o lenB
      h      == FoldLeft(LAMBDA a, c : Md5Block(a, data, 64 * c), st.h, Idx(0, (Len(data) \div 64) - 1))
      wb(w)  == << w[2] % 256, w[2] \div 256, w[1] % 256, w[1] \div 256 >>
  IN wb(h[1]) \o wb(h[2]) \o wb(h[3]) \o wb(h[4])

Md5(bytes) == Md5Finish(Md5Feed(Md5Start, bytes))
=============================================================================
