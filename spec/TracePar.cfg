SPECIFICATION TSpec
CONSTANTS
  Ws = {1}
  Ns = {1}
  M = 2
  PQCAP = 16
  FailAts = {99}
  BadSets = {{}}
  EofFills = {TRUE}
  Variant = "repaired"
POSTCONDITION Consumed
CHECK_DEADLOCK FALSE
