SPECIFICATION Spec
CONSTANTS
  Par = TRUE
  Experimental = FALSE
POSTCONDITION Consumed
CHECK_DEADLOCK FALSE
