\* the cache key as it was at the pinned commit: TLC finds the collision (known finding, fixed)
SPECIFICATION Spec
CONSTANTS
  Alphabet = {"A"}
  MaxLen = 1
  KeyMode = "quantised"
INVARIANTS CacheCoherent
CHECK_DEADLOCK FALSE
