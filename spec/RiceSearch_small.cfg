\* smallest scope, with the brute force over every parameter assignment (Separable)
CONSTANTS
  MP = 1
  PCAP = 3
  SHB = 2
  CL = 31
  UN = 2
  OCAP = 15
  NS = {1, 2, 3, 4}
  EV = {0, 1, 2, 5, 9}
  WS = {0, 1, 2}
  PS = {0, 1, 2, 3}
SPECIFICATION Spec
INVARIANTS FinestAgrees Shape EmittedOptimal BitsHonest NeverBelowTruth TieRule Separable
CHECK_DEADLOCK FALSE
