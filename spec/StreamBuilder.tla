---------------------------- MODULE StreamBuilder ----------------------------
(***************************************************************************)
(* The component-level assembly API a frame-level user drives             *)
(* (component/datatype.rs):  Stream::new, add_frame, add_metadata_block,   *)
(* stream_info_mut().set_block_sizes / set_frame_sizes / set_total_samples,*)
(* and what Stream::write then puts on the wire.                           *)
(*                                                                         *)
(* The state is what the public accessors show:                            *)
(*   minbs maxbs (u16), minfs maxfs (u32; INF stands for u32::MAX),        *)
(*   total, metas = <<[tag, len]>>, frames = <<[bs, bytes]>>.              *)
(* The model says what the code does, including that a failing setter      *)
(* keeps the fields it had already assigned before the check failed        *)
(* (SetBlockSizes / SetFrameSizes assign, then validate).                  *)
(*                                                                         *)
(* Wire view (Wire(st)): marker, STREAMINFO with the last-block flag iff   *)
(* there is no other metadata block, then the blocks in insertion order,   *)
(* only the final one flagged; frame sizes are written as 0/0 while        *)
(* minfs > maxfs ("unknown", the state before the first frame).            *)
(***************************************************************************)
EXTENDS Naturals, Integers, Sequences, SequencesExt, FiniteSets, TLC

INF == 2147483647                   \* stand-in for u32::MAX (the initial min_frame_size)
BIG == 0 - 1                        \* an argument that does not fit the field type (2^16 / 2^32 or more)
U16 == 65535
MaxBs == 32767
Min2(a, b) == IF a <= b THEN a ELSE b
Max2(a, b) == IF a >= b THEN a ELSE b

New == [minbs |-> U16, maxbs |-> 0, minfs |-> INF, maxfs |-> 0, total |-> 0, metas |-> <<>>, frames |-> <<>>]

\* every call returns [st, r] with r \in {"ok", "err"}
\* var: the frame's header uses the variable-blocksize strategy (its number is a start sample), num: that number
AddFrame(st, bs, bytes, var, num) ==
  [st |-> [st EXCEPT !.minbs = Min2(bs, @), !.maxbs = Max2(bs, @), !.minfs = Min2(bytes, @), !.maxfs = Max2(bytes, @),
                     !.total = @ + bs, !.frames = Append(@, [bs |-> bs, bytes |-> bytes, var |-> var, num |-> num])],
   r |-> "ok"]
AddMeta(st, tag, len) == [st |-> [st EXCEPT !.metas = Append(@, [tag |-> tag, len |-> len])], r |-> "ok"]
\* arguments that do not fit the field type are given as BIG (= -1)
SetBlockSizes(st, a, b) ==
  IF a = BIG THEN [st |-> st, r |-> "err"]
  ELSE IF b = BIG THEN [st |-> [st EXCEPT !.minbs = a], r |-> "err"]
  ELSE [st |-> [st EXCEPT !.minbs = a, !.maxbs = b],
        r  |-> IF a <= MaxBs /\ b <= MaxBs /\ a <= b THEN "ok" ELSE "err"]
SetFrameSizes(st, a, b) ==
  IF a = BIG THEN [st |-> st, r |-> "err"]
  ELSE IF b = BIG THEN [st |-> [st EXCEPT !.minfs = a], r |-> "err"]
  ELSE [st |-> [st EXCEPT !.minfs = a, !.maxfs = b], r |-> IF a <= b THEN "ok" ELSE "err"]
SetTotal(st, n) == [st |-> [st EXCEPT !.total = n], r |-> "ok"]

\* ------------------------------------------------------------------ Stream::verify
\* STREAMINFO: once total_samples is non-zero the four bounds must be ordered and the block sizes legal;
\* frames: the strategy of the first frame decides - fixed: numbers 0, 1, 2, ...; variable: start samples
\* are the running sum of the block sizes; a mixture never verifies.
InfoVerifies(st) ==
  st.total = 0 \/ (st.minbs <= st.maxbs /\ st.minbs <= MaxBs /\ st.maxbs <= MaxBs /\ st.minfs <= st.maxfs)
FramesVerify(st) ==
  LET f == st.frames
      n == Len(f)
      startOf(i) == FoldLeft(LAMBDA a, j : a + f[j].bs, 0, [j \in 1..(i - 1) |-> j])
  IN n = 0 \/ (IF f[1].var THEN \A i \in 1..n : f[i].var /\ f[i].num = startOf(i)
                           ELSE \A i \in 1..n : ~f[i].var /\ f[i].num = i - 1)
VerifyOk(st) == InfoVerifies(st) /\ FramesVerify(st)

\* ------------------------------------------------------------------ wire view
Wire(st) ==
  LET nm == Len(st.metas)
      unknownFs == st.minfs > st.maxfs
  IN [ infoLast |-> nm = 0,
       minbs |-> st.minbs, maxbs |-> st.maxbs,
       minfs |-> IF unknownFs THEN 0 ELSE st.minfs % 16777216,
       maxfs |-> IF unknownFs THEN 0 ELSE st.maxfs % 16777216,
       total |-> st.total,
       types |-> <<0>> \o [i \in 1..nm |-> st.metas[i].tag],
       lasts |-> <<(IF nm = 0 THEN 1 ELSE 0)>> \o [i \in 1..nm |-> IF i = nm THEN 1 ELSE 0],
       firstFrameAt |-> 42 + FoldLeft(LAMBDA a, m : a + 4 + m.len, 0, st.metas),
       bytes |-> 42 + FoldLeft(LAMBDA a, m : a + 4 + m.len, 0, st.metas) + FoldLeft(LAMBDA a, f : a + f.bytes, 0, st.frames) ]

\* ------------------------------------------------------------------ small-scope model
CONSTANTS Palette,      \* set of [bs, bytes, var, num] frames
          MetaKinds,    \* set of [tag, len]
          SizeArgs,     \* arguments tried for the setters (naturals and BIG)
          MaxCalls
VARIABLES st, calls, setters
vars == <<st, calls, setters>>
Init == st = New /\ calls = 0 /\ setters = FALSE
Do(res) == st' = res.st /\ calls' = calls + 1
Next ==
  /\ calls < MaxCalls
  /\ \/ \E f \in Palette : Do(AddFrame(st, f.bs, f.bytes, f.var, f.num)) /\ UNCHANGED setters
     \/ \E m \in MetaKinds : Do(AddMeta(st, m.tag, m.len)) /\ UNCHANGED setters
     \/ \E a, b \in SizeArgs : Do(SetBlockSizes(st, a, b)) /\ setters' = TRUE
     \/ \E a, b \in SizeArgs : Do(SetFrameSizes(st, a, b)) /\ setters' = TRUE
     \/ \E n \in SizeArgs \ {BIG} : Do(SetTotal(st, n)) /\ setters' = TRUE
Spec == Init /\ [][Next]_vars

SetMin(S) == CHOOSE x \in S : \A y \in S : x <= y
SetMax(S) == CHOOSE x \in S : \A y \in S : x >= y
FrameBs == {st.frames[i].bs : i \in 1..Len(st.frames)}
FrameBytes == {st.frames[i].bytes : i \in 1..Len(st.frames)}

\* exactly the final metadata block carries the last-block flag, STREAMINFO comes first and once
ChainOk ==
  LET w == Wire(st) IN
  /\ w.types[1] = 0
  /\ \A i \in 1..Len(w.lasts) : (w.lasts[i] = 1) <=> (i = Len(w.lasts))
\* with add_frame alone the bounds are exact (the assembly behind C04 for frame-level users)
BoundsExact ==
  (~setters /\ Len(st.frames) >= 1) =>
     LET w == Wire(st) IN
     /\ w.minbs = SetMin(FrameBs) /\ w.maxbs = SetMax(FrameBs)
     /\ w.minfs = SetMin(FrameBytes) /\ w.maxfs = SetMax(FrameBytes)
     /\ w.total = FoldLeft(LAMBDA a, f : a + f.bs, 0, st.frames)
\* frames numbered in order, added with add_frame alone, give a stream that verifies
WellNumberedVerifies ==
  (~setters /\ Len(st.frames) >= 1 /\ FramesVerify(st)) => VerifyOk(st)
\* before the first frame the size fields read "unknown", never the sentinels
NoSentinelOnWire == LET w == Wire(st) IN w.minfs < 16777216 /\ w.maxfs < 16777216 /\ (st.minfs = INF /\ st.maxfs = 0 => w.minfs = 0 /\ w.maxfs = 0)
=============================================================================
