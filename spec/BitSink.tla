------------------------------ MODULE BitSink ------------------------------
(***************************************************************************)
(* The ideal MSB-first bit string that every BitSink must behave like      *)
(* (property C11).  State = a sequence of bits; every trait operation      *)
(* appends to it.  Values are given as big-endian byte sequences of the    *)
(* operand type (1, 2, 4 or 8 bytes) because TLC integers are 32 bit.      *)
(***************************************************************************)
EXTENDS Naturals, Sequences, SequencesExt, Bits

\* bits of a big-endian byte sequence, most significant first
BitsOfBytes(v) == [i \in 1..(8 * Len(v)) |-> (v[((i - 1) \div 8) + 1] \div 2^(7 - ((i - 1) % 8))) % 2]

Msbs(v, n) == SubSeq(BitsOfBytes(v), 1, n)
Lsbs(v, n) == SubSeq(BitsOfBytes(v), 8 * Len(v) - n + 1, 8 * Len(v))
Zeros(n)   == [i \in 1..n |-> 0]
PadTo8(bits) == (8 - (Len(bits) % 8)) % 8

\* effect of one operation on the ideal bit string; ret = value the operation must return
\* (number of padding bits for align / aligned bytes, -1 = nothing to compare)
Apply(bits, op, v, n) ==
  CASE op = "write" -> [bits |-> bits \o BitsOfBytes(v), ret |-> 0 - 1]
    [] op = "msbs"  -> [bits |-> bits \o Msbs(v, n), ret |-> 0 - 1]
    [] op = "lsbs"  -> [bits |-> bits \o Lsbs(v, n), ret |-> 0 - 1]
    [] op = "twoc"  -> [bits |-> bits \o Lsbs(v, n), ret |-> 0 - 1]     \* v = the signed value as 8 bytes
    [] op = "zeros" -> [bits |-> bits \o Zeros(n), ret |-> 0 - 1]
    [] op = "align" -> [bits |-> bits \o Zeros(PadTo8(bits)), ret |-> PadTo8(bits)]
    [] op = "bytes" -> [bits |-> bits \o Zeros(PadTo8(bits)) \o BitsOfBytes(v), ret |-> PadTo8(bits)]

\* storage image: the bit string padded with zeros to a multiple of `word` bits, as bytes
Export(bits, word) ==
  LET padded == bits \o Zeros((word - (Len(bits) % word)) % word)
  IN [j \in 1..(Len(padded) \div 8) |->
        FoldLeft(LAMBDA a, i : 2 * a + padded[i], 0, Idx(8 * (j - 1) + 1, 8 * j))]
=============================================================================
