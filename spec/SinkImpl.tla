------------------------------- MODULE SinkImpl -------------------------------
(***************************************************************************)
(* The two in-memory sinks of bitsink.rs as written, parametric in the     *)
(* storage word (WORD = 64 in MemSink<u64>, 8 in MemSink<u8>; checked at   *)
(* small WORD), run in lock step with the ideal bit string of BitSink.tla. *)
(* Refinement mapping: the first `bitlength` bits of the concatenated      *)
(* words are the ideal bits, the remaining bits of the last word are zero, *)
(* and there are exactly ceil(bitlength / WORD) words.                     *)
(*                                                                         *)
(* Kind = "word": MemSink<u64> (write_msbs_impl with deferred carry and    *)
(* wrapping shifts); Kind = "byte": MemSink<u8> (fill the partial element, *)
(* push whole elements, push the tail).  Variant = "pinned" omits the      *)
(* early return for n = 0 in the word sink (fixed by 8e6df85): TLC then    *)
(* finds the tail corruption.                                              *)
(***************************************************************************)
EXTENDS Naturals, Integers, Sequences, SequencesExt, FiniteSets, TLC, Bitwise

CONSTANTS WORD,        \* bits per storage element
          Widths,      \* operand widths T (multiples of WORD for the byte sink, <= WORD for the word sink)
          ALIGN,       \* alignment unit of align_to_byte (divides WORD)
          MaxOps,      \* operations per behaviour
          Kind,        \* "word" | "byte"
          Variant      \* "repaired" | "pinned"

VARIABLES storage, bitlength, ideal, nops
vars == << storage, bitlength, ideal, nops >>

Pow(k) == 2^k
Paddings == (WORD - (bitlength % WORD)) % WORD
BitsOf(v, w) == [i \in 1..w |-> (v \div Pow(w - i)) % 2]         \* MSB first
Vals(w) == {0, Pow(w) - 1, (Pow(w) - 1) \div 3, Pow(w - 1) + 1}   \* zero, all ones, 0101.., 10..01

Init == storage = <<>> /\ bitlength = 0 /\ ideal = <<>> /\ nops = 0

OrLast(st, x) == IF st = <<>> THEN st ELSE [st EXCEPT ![Len(st)] = @ | x]

---------------------------------------------------------------------------
\* MemSink<u64>::write_msbs_impl: val has only its n most significant bits (of T) set
WordImpl(st, bl, val, T, n) ==
  LET r    == (WORD - (bl % WORD)) % WORD
      v    == val * Pow(WORD - T)                                  \* val <<= 64 - T::BITS
      lastSetter == IF r = 0 THEN v ELSE v \div Pow(WORD - r)      \* wrapping_shr(64 - r): no shift when r = 0
      v2   == IF r = 0 THEN v ELSE (v * Pow(r)) % Pow(WORD)        \* wrapping_shl(r)
      st1  == IF r # 0 THEN OrLast(st, lastSetter) ELSE st
      st2  == IF r < n THEN Append(st1, v2) ELSE st1
  IN [st |-> st2, bl |-> bl + n]

WordMsbs(st, bl, val, T, n) ==
  IF n = 0 /\ Variant = "repaired" THEN [st |-> st, bl |-> bl]
  ELSE LET masked == IF n = 0 THEN val                             \* 1 << T wraps to 1: mask = !(0) keeps everything
                     ELSE (val \div Pow(T - n)) * Pow(T - n)
       IN WordImpl(st, bl, masked, T, n)
WordLsbs(st, bl, val, T, n) ==
  IF n = 0 /\ Variant = "repaired" THEN [st |-> st, bl |-> bl]
  ELSE WordImpl(st, bl, IF n = 0 THEN val ELSE (val * Pow(T - n)) % Pow(T), T, n)   \* val << T wraps to val << 0
WordZeros(st, bl, n) ==
  LET pad == (WORD - (bl % WORD)) % WORD
      rest == IF n > pad THEN n - pad ELSE 0
      elems == (rest + WORD - 1) \div WORD
  IN [st |-> st \o [i \in 1..elems |-> 0], bl |-> bl + n]

---------------------------------------------------------------------------
\* MemSink<u8>::write_msbs
ByteMsbs(st, bl, val0, T, n0) ==
  IF n0 = 0 THEN [st |-> st, bl |-> bl] ELSE
  LET r    == (WORD - (bl % WORD)) % WORD
      val  == (val0 \div Pow(T - n0)) * Pow(T - n0)
      st1  == IF r # 0 THEN OrLast(st, val \div Pow(T - r)) ELSE st
      val1 == IF r # 0 THEN (val * Pow(r)) % Pow(T) ELSE val
  IN IF r # 0 /\ r >= n0 THEN [st |-> st1, bl |-> bl + n0]
     ELSE LET n    == IF r # 0 THEN n0 - r ELSE n0
              full == n \div WORD
              st2  == st1 \o [i \in 1..full |-> (val1 \div Pow(T - i * WORD)) % Pow(WORD)]
              rem  == n % WORD
              val2 == (val1 * Pow(full * WORD)) % Pow(T)
              st3  == IF rem > 0 THEN Append(st2, val2 \div Pow(T - WORD)) ELSE st2
          IN [st |-> st3, bl |-> bl + n0]
ByteLsbs(st, bl, val, T, n) == IF n = 0 THEN [st |-> st, bl |-> bl] ELSE ByteMsbs(st, bl, (val * Pow(T - n)) % Pow(T), T, n)
\* MemSink<u8>::write: fill the partial element with the top bits, then push all elements of (val << tail)
ByteWrite(st, bl, val, T) ==
  LET tail == (WORD - (bl % WORD)) % WORD
      a    == IF tail > 0 THEN ByteMsbs(st, bl, val, T, tail) ELSE [st |-> st, bl |-> bl]
      v    == (val * Pow(tail)) % Pow(T)
  IN [st |-> a.st \o [i \in 1..(T \div WORD) |-> (v \div Pow(T - i * WORD)) % Pow(WORD)], bl |-> bl + T]
ByteZeros(st, bl, n) ==
  LET pad == (WORD - (bl % WORD)) % WORD
  IN IF n <= pad THEN [st |-> st, bl |-> bl + n]
     ELSE [st |-> st \o [i \in 1..(((n - pad) + WORD - 1) \div WORD) |-> 0], bl |-> bl + n]

---------------------------------------------------------------------------
Msbs(val, T, n)  == IF Kind = "word" THEN WordMsbs(storage, bitlength, val, T, n) ELSE ByteMsbs(storage, bitlength, val, T, n)
Lsbs(val, T, n)  == IF Kind = "word" THEN WordLsbs(storage, bitlength, val, T, n) ELSE ByteLsbs(storage, bitlength, val, T, n)
Write(val, T)    == IF Kind = "word" THEN WordMsbs(storage, bitlength, val, T, T) ELSE ByteWrite(storage, bitlength, val, T)
ZerosOp(n)       == IF Kind = "word" THEN WordZeros(storage, bitlength, n) ELSE ByteZeros(storage, bitlength, n)
AlignPad         == (ALIGN - (bitlength % ALIGN)) % ALIGN

Apply(r, newBits) == storage' = r.st /\ bitlength' = r.bl /\ ideal' = ideal \o newBits /\ nops' = nops + 1

Next ==
  /\ nops < MaxOps
  /\ \/ \E T \in Widths : \E n \in 0..T : \E v \in Vals(T) :
           \/ Apply(Msbs(v, T, n), SubSeq(BitsOf(v, T), 1, n))
           \/ Apply(Lsbs(v, T, n), SubSeq(BitsOf(v, T), T - n + 1, T))
     \/ \E T \in Widths : \E v \in Vals(T) : Apply(Write(v, T), BitsOf(v, T))
     \/ \E n \in 0..(2 * WORD + 1) : Apply(ZerosOp(n), [i \in 1..n |-> 0])
     \/ Apply([st |-> storage, bl |-> bitlength + AlignPad], [i \in 1..AlignPad |-> 0])      \* align_to_byte only moves the cursor
Spec == Init /\ [][Next]_vars

---------------------------------------------------------------------------
AllBits == FoldLeft(LAMBDA acc, w : acc \o BitsOf(w, WORD), <<>>, storage)
Refines ==
  /\ bitlength = Len(ideal)
  /\ Len(storage) = (bitlength + WORD - 1) \div WORD
  /\ SubSeq(AllBits, 1, bitlength) = ideal
  /\ \A i \in (bitlength + 1)..Len(AllBits) : AllBits[i] = 0          \* unwritten tail bits are zero
=============================================================================
