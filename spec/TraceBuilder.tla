----------------------------- MODULE TraceBuilder -----------------------------
(***************************************************************************)
(* Steps StreamBuilder's actions through calls recorded on a real Stream   *)
(* (harness/src/builder.rs; the call sequences come from BuilderGen.tla):  *)
(* after every call the result, the accessor view and the bytes            *)
(* Stream::write emits up to the first frame must be what the model says.  *)
(*                                                                         *)
(*   C08:   stream.count_bits() = 8 * bytes written   (a listed property,  *)
(*          here for streams with extra metadata blocks and user-set       *)
(*          STREAMINFO fields)                                             *)
(*   C02:   the last-block flags of the written metadata chain are        *)
(*          consistent with what follows (also a listed property)          *)
(*   MODEL: everything else - conformance of the assembly API to the       *)
(*          model, reported as MODEL-DIVERGENCE by the check.              *)
(***************************************************************************)
EXTENDS Naturals, Integers, Sequences, SequencesExt, FiniteSets, FiniteSetsExt, TLC, Json, IOUtils, FlacFormat
CONSTANTS Palette, MetaKinds, SizeArgs, MaxCalls
VARIABLES st, calls, setters
SB == INSTANCE StreamBuilder

Rec == ndJsonDeserialize(IOEnv.TRACE)
VARIABLES l, bad, id
Ev == Rec[l]

Msg(c, t) == IF c THEN {} ELSE {t}
ObsProblems(o, s, what) ==
  LET w == SB!Wire(s)
      b == o.wire
  IN Msg(o.wrote, "MODEL: " \o what \o ": Stream::write failed")
     \cup Msg(<<o.minbs, o.maxbs, o.minfs, o.maxfs, o.total, o.nframes>> = <<s.minbs, s.maxbs, s.minfs, s.maxfs, s.total, Len(s.frames)>>,
              "MODEL: " \o what \o ": accessors show " \o ToString(<<o.minbs, o.maxbs, o.minfs, o.maxfs, o.total, o.nframes>>)
              \o ", the model has " \o ToString(<<s.minbs, s.maxbs, s.minfs, s.maxfs, s.total, Len(s.frames)>>))
     \cup Msg(o.verify = SB!VerifyOk(s), "MODEL: " \o what \o ": Stream::verify says " \o ToString(o.verify) \o ", the model says " \o ToString(SB!VerifyOk(s)))
     \cup Msg(o.count_rem = 0 /\ o.count = o.wlen, "C08: " \o what \o ": stream count_bits is " \o ToString(o.count) \o " bytes + " \o ToString(o.count_rem)
              \o " bits but " \o ToString(o.wlen) \o " bytes are written")
     \cup Msg(o.wlen = w.bytes, "MODEL: " \o what \o ": " \o ToString(o.wlen) \o " bytes written, the model expects " \o ToString(w.bytes))
     \cup (IF Len(b) < 42 THEN {"MODEL: " \o what \o ": fewer than 42 bytes before the first frame"} ELSE
           LET h == StreamHead(b)
               m == Meta(b)
           IN Msg(h.magic /\ h.type = 0 /\ h.mlen = 34, "MODEL: " \o what \o ": marker / STREAMINFO header")
              \cup Msg(h.last = (IF w.infoLast THEN 1 ELSE 0), "MODEL: " \o what \o ": last-block flag of STREAMINFO")
              \cup Msg(<<h.minbs, h.maxbs, h.minfs, h.maxfs, h.totHi, h.totLo>> = <<w.minbs, w.maxbs, w.minfs, w.maxfs, 0, w.total>>,
                       "MODEL: " \o what \o ": STREAMINFO on the wire " \o ToString(<<h.minbs, h.maxbs, h.minfs, h.maxfs, h.totLo>>)
                       \o ", the model expects " \o ToString(<<w.minbs, w.maxbs, w.minfs, w.maxfs, w.total>>))
              \* C02 (a listed property, judged on the bytes alone): the chain of last-block flags ends exactly where
              \* the frames begin - no block after a flagged one, no frame before it
              \cup Msg(m.ok /\ m.at = Len(b), "C02: " \o what \o ": the metadata chain of the written stream ends at byte " \o ToString(m.at)
                       \o " (block types " \o ToString(m.types) \o ") but the frames start at byte " \o ToString(Len(b))
                       \o ": a last-block flag is inconsistent with what follows")
              \cup Msg(m.ok /\ m.at = w.firstFrameAt /\ m.types = w.types /\ Len(b) = w.firstFrameAt,
                       "MODEL: " \o what \o ": metadata chain (types " \o ToString(m.types) \o ", frames start at " \o ToString(m.at)
                       \o ") differs from the model (" \o ToString(w.types) \o ", " \o ToString(w.firstFrameAt) \o ")"))

Apply(s, e) ==
  CASE e.op = "frame" -> SB!AddFrame(s, e.x, e.y, FALSE, e.b)
    [] e.op = "vframe" -> SB!AddFrame(s, e.x, e.y, TRUE, e.b)
    [] e.op = "meta"  -> SB!AddMeta(s, e.x, e.y)
    [] e.op = "bs"    -> SB!SetBlockSizes(s, e.a, e.b)
    [] e.op = "fs"    -> SB!SetFrameSizes(s, e.a, e.b)
    [] e.op = "total" -> SB!SetTotal(s, e.a)

TInit == l = 1 /\ bad = {} /\ id = "" /\ st = SB!New /\ calls = 0 /\ setters = FALSE
TNew  == Ev.ev = "new" /\ id' = Ev.id /\ st' = SB!New /\ bad' = {} /\ calls' = 0
TObs0 == Ev.ev = "obs0" /\ bad' = bad \cup ObsProblems(Ev.obs, st, "fresh stream") /\ UNCHANGED <<id, st, calls>>
TCall == /\ Ev.ev = "call"
         /\ \E res \in {Apply(st, Ev)} :
              /\ st' = res.st /\ calls' = calls + 1
              /\ bad' = bad \cup Msg(Ev.r = res.r, "MODEL: call " \o ToString(calls + 1) \o " " \o Ev.op \o ToString(<<Ev.a, Ev.b>>) \o " returns " \o Ev.r
                                                    \o ", the model says " \o res.r)
                            \cup ObsProblems(Ev.obs, res.st, "after call " \o ToString(calls + 1) \o " " \o Ev.op \o ToString(<<Ev.a, Ev.b>>))
         /\ UNCHANGED id
TPanic == Ev.ev = "panic" /\ bad' = bad \cup {"MODEL: a call of the assembly API panicked"} /\ UNCHANGED <<id, st, calls>>
TEnd == /\ Ev.ev = "end" /\ UNCHANGED <<id, st, calls>> /\ bad' = {}
        /\ PrintT("VERDICT|" \o id \o
                  (IF bad = {} THEN "|pass|"
                   ELSE (IF \E x \in bad : SubSeq(x, 1, 4) \in {"C08:", "C02:"} THEN "|FAIL|" ELSE "|DIVERGED|")
                        \o FoldSet(LAMBDA x, a : a \o x \o " ;; ", "", bad)))
TNext == l <= Len(Rec) /\ l' = l + 1 /\ UNCHANGED setters /\ (TNew \/ TObs0 \/ TCall \/ TPanic \/ TEnd)
TSpec == TInit /\ [][TNext]_<<l, bad, id, st, calls, setters>>
Consumed == \/ TLCGet("stats").diameter = Len(Rec) + 1
            \/ (PrintT(<<"UNCONSUMED", TLCGet("stats").diameter, Len(Rec)>>) /\ FALSE)
=============================================================================
