SPECIFICATION Spec
POSTCONDITION Consumed
CHECK_DEADLOCK FALSE
