---------------------------- MODULE TraceStream ----------------------------
(***************************************************************************)
(* Trace validation of whole streams emitted by the real encoder.          *)
(*                                                                         *)
(* The harness (fv stream) records, per case, a `case` event (geometry,    *)
(* configuration, outcome and the emitted bytes), one `blk` event per      *)
(* input block (the samples the encoder was given, per channel, plus the   *)
(* bit counts the library reports for C08), and an `end` event.  One TLC   *)
(* step consumes one event; every `blk` step decodes the next frame with   *)
(* FlacFormat and evaluates the conjuncts of the properties named in the   *)
(* case's `props` field; the `end` step closes the stream-level conjuncts  *)
(* and prints the verdict.  Violations are collected in `bad` and printed  *)
(* (so one run reports every failing case); the POSTCONDITION demands that *)
(* every event was consumed.                                               *)
(***************************************************************************)
EXTENDS Naturals, Integers, Sequences, SequencesExt, FiniteSets, TLC, Json, IOUtils, FlacFormat, Md5

Rec == ndJsonDeserialize(IOEnv.TRACE)

VARIABLES l,        \* next event
          c,        \* index of the current case event (0 = none)
          pos,      \* 0-based byte offset of the next frame, -1 = stream abandoned
          k,        \* next frame number
          acc,      \* accumulators over the frames seen so far
          md,       \* MD5 state over the serialised input (C03)
          bad       \* violated conjuncts of the current case
vars == <<l, c, pos, k, acc, md, bad>>

Acc0 == [minLen |-> 0, maxLen |-> 0, minN |-> 0, frames |-> 0, samples |-> 0]

Init == l = 1 /\ c = 0 /\ pos = -1 /\ k = 0 /\ acc = Acc0 /\ md = Md5Start /\ bad = {}

Ev == Rec[l]
Case == Rec[c]
P(prop) == \E i \in 1..Len(Case.props) : Case.props[i] = prop
NBlk(cs) == IF cs.n = 0 THEN 0 ELSE (cs.n + cs.bs - 1) \div cs.bs
\* properties that speak about STREAMINFO / whole-stream equalities only: the frames need not be decoded
\* (this is what lets C03 afford blocks of 4096 x 6 samples: only the MD5 input is processed)
NoParseNeeded == \A i \in 1..Len(Case.props) : Case.props[i] \in {"C03", "C05", "C14"}

\* one line per case on TLC's stdout, parsed by tools/check.py
Verdict(id, final) ==
  "VERDICT|" \o id \o (IF final = {} THEN "|pass|" ELSE "|FAIL|") \o
  FoldSet(LAMBDA x, a : a \o x \o " ;; ", "", final)

Tag(prop, msg) == prop \o ": " \o msg
TagF(prop, kk, msg) == prop \o ": frame " \o ToString(kk) \o ": " \o msg

---------------------------------------------------------------------------
(* Domain precondition: a generator bug must not become a false alarm.     *)
ValidInput(cs) ==
  /\ cs.ch \in 1..8 /\ cs.bps \in {8, 12, 16, 20, 24} /\ cs.rate \in 1..96000
  /\ cs.bs \in 32..32767 /\ cs.n >= 0 /\ cs.maxp \in 0..14

InRange(x, bps) == \A ch \in 1..Len(x) : \A t \in 1..Len(x[ch]) :
                      x[ch][t] >= -(2^(bps - 1)) /\ x[ch][t] < 2^(bps - 1)

---------------------------------------------------------------------------
CaseStart ==
  /\ l <= Len(Rec) /\ Ev.ev = "case"
  /\ c' = l /\ l' = l + 1 /\ k' = 0 /\ acc' = Acc0 /\ md' = Md5Start
  /\ LET cs == Ev
         b  == cs.bytes
     IN IF cs.outcome = "oversize"
        THEN \* the harness withheld the bytes of a stream > 4 x raw PCM + 64 KiB: C09 judges the
             \* size, every other property skips the case (it cannot afford to decode it)
             /\ pos' = -2
             /\ bad' = (IF \E i \in 1..Len(cs.props) : cs.props[i] = "C09"
                       THEN {Tag("C09", "stream of " \o ToString(cs.nbytes) \o " bytes for " \o ToString(cs.rawbytes)
                                        \o " bytes of raw PCM (" \o ToString(NBlk(cs)) \o " frames)")}
                       ELSE {}) \cup
                        \* the size the stream reports can still be compared with the size that was written
                        (IF (\E i \in 1..Len(cs.props) : cs.props[i] = "C08") /\ cs.count_bytes >= 0 /\
                            (cs.count_bytes # cs.nbytes \/ cs.count_rem # 0)
                         THEN {Tag("C08", "stream count_bits is " \o ToString(cs.count_bytes) \o " bytes but " \o ToString(cs.nbytes) \o " bytes were written")}
                         ELSE {})
        ELSE IF cs.outcome # "ok"
        THEN /\ pos' = -1
             /\ bad' = {Tag("ALL", "encoding a valid input failed: " \o cs.outcome \o " " \o cs.detail)}
        ELSE LET h == StreamHead(b)
                 m == Meta(b)
                 Pc(prop) == \E i \in 1..Len(cs.props) : cs.props[i] = prop
             IN /\ Assert(ValidInput(cs), <<"generator produced an input outside the domain", cs.id>>)
                /\ IF ~h.ok \/ ~h.magic \/ ~m.ok
                   THEN pos' = -1 /\ bad' = {Tag("ALL", "no fLaC marker / metadata chain unreadable")}
                   ELSE /\ pos' = m.at
                        /\ bad' =
                           (IF Pc("C01") /\ ~(h.ch = cs.ch /\ h.bps = cs.bps /\ h.rate = cs.rate)
                              THEN {Tag("C01", "STREAMINFO format differs from the source")} ELSE {}) \cup
                           \* (a source whose length hint lies - hint_delta # 0, used for cross-path equality only -
                           \*  decides nothing about the total the stream should state)
                           (IF Pc("C01") /\ cs.hint_delta = 0 /\ ~(h.totHi = 0 /\ h.totLo = cs.n)
                              THEN {Tag("C01", "stream length differs from the input length")} ELSE {}) \cup
                           (IF Pc("C02") /\ ~(h.type = 0 /\ h.mlen = 34)
                              THEN {Tag("C02", "first metadata block is not a 34-byte STREAMINFO")} ELSE {}) \cup
                           (IF Pc("C02") /\ \E i \in 2..Len(m.types) : m.types[i] = 0
                              THEN {Tag("C02", "second STREAMINFO block")} ELSE {}) \cup
                           (IF Pc("C02") /\ \E i \in 1..Len(m.types) : m.types[i] = 127
                              THEN {Tag("C02", "invalid metadata block type 127")} ELSE {}) \cup
                           (IF Pc("C03") /\ ~(h.ch = cs.ch /\ h.bps = cs.bps /\ h.rate = cs.rate)
                              THEN {Tag("C03", "STREAMINFO rate/channels/width differ from the source")} ELSE {}) \cup
                           (IF Pc("C03") /\ cs.hint_delta = 0 /\ ~(h.totHi = 0 /\ h.totLo = cs.n)
                              THEN {Tag("C03", "STREAMINFO total samples differ from the samples consumed")} ELSE {}) \cup
                           (IF Pc("C15") THEN
                              (IF cs.p15.parse # "ok" THEN {Tag("C15", "the parser does not accept the emitted stream: " \o cs.p15.parse)} ELSE
                                 (IF cs.p15.remaining # 0 THEN {Tag("C15", "the parser leaves " \o ToString(cs.p15.remaining) \o " bytes unconsumed")} ELSE {}) \cup
                                 (IF cs.p15.verify # "ok" THEN {Tag("C15", "the parsed tree does not verify: " \o cs.p15.verify)} ELSE {}) \cup
                                 (IF ~cs.p15.reser THEN {Tag("C15", "the parsed tree does not re-serialise to the same bytes")} ELSE {}) \cup
                                 (IF ~cs.p15.frames_ok THEN {Tag("C15", "a single frame does not survive write / parse / write")} ELSE {}) \cup
                                 (IF cs.p15.nframes # NBlk(cs) THEN {Tag("C15", "the parser reports " \o ToString(cs.p15.nframes) \o " frames")} ELSE {}))
                            ELSE {}) \cup
                           (IF Pc("C05") /\ ~cs.modes_equal
                              THEN {Tag("C05", "single-thread, multi-thread and frame-level assembly of the same input give different bytes")} ELSE {}) \cup
                           (IF Pc("C14") /\ ~cs.twin_equal
                              THEN {Tag("C14", "integer delivery and packed-byte delivery of the same audio give different streams")} ELSE {}) \cup
                           (IF Pc("C08") /\ cs.count # 8 * Len(b)
                              THEN {Tag("C08", "stream count_bits differs from the bits written")} ELSE {}) \cup
                           \* the same stream through the other in-memory sink type (MemSink<u64>): bits it holds, bytes it exports
                           (IF Pc("C08") /\ cs.w64 # -1 /\ (cs.w64 # cs.count \/ ~cs.w64_same)
                              THEN {Tag("C08", "written into the word-based sink the stream occupies " \o ToString(cs.w64) \o " bits (count_bits "
                                               \o ToString(cs.count) \o "), byte export equal to the byte-based sink: " \o ToString(cs.w64_same))} ELSE {})

\* little-endian two's complement serialisation of one block (section 8.2: MD5 input)
Serialise(x, ch, bps) ==
  LET B == (bps + 7) \div 8
      n == Len(x[1])
  IN [i \in 1..(n * ch * B) |->
        LET s  == (i - 1) \div B
            bi == (i - 1) % B
            v  == x[(s % ch) + 1][(s \div ch) + 1]
        IN ((v % 2^(8 * B)) \div 256^bi) % 256]

\* conjuncts of one successfully parsed frame f for the block x (k-th frame of case cs)
FrameConjuncts(f, x, cs, h, kk, isLast, cb) ==
  (IF P("C01") /\ f.decoded # x
     THEN {TagF("C01", kk, "decoded samples differ from the input block")} ELSE {}) \cup
  (IF P("C02") THEN { TagF("C02", kk, w) : w \in FrameWf(f, h, kk, isLast, cs.bs) } ELSE {}) \cup
  (IF P("C04") /\ f.len >= 16777216
     THEN {TagF("C04", kk, "frame longer than the 24-bit size field")} ELSE {}) \cup
  (IF P("C09") /\ f.len * 8 > VerbatimFrameBits(f, cs.ch, cs.bps) + 16 * cs.ch
     THEN {TagF("C09", kk, "frame of " \o ToString(f.len) \o " bytes exceeds verbatim "
                          \o ToString(VerbatimFrameBits(f, cs.ch, cs.bps) \div 8) \o " + 2/channel")}
     ELSE {}) \cup
  (IF P("C08") THEN
     (IF cb.frame # 8 * f.len \/ cb.frame # FrameSize(f)
        THEN {TagF("C08", kk, "frame count_bits " \o ToString(cb.frame) \o " vs written "
                             \o ToString(8 * f.len) \o " vs structural " \o ToString(FrameSize(f)))} ELSE {}) \cup
     (IF cb.hdr # 8 * f.hdrLen \/ cb.hdr # HeaderSize(f)
        THEN {TagF("C08", kk, "header count_bits differs from bits written")} ELSE {}) \cup
     UNION { (IF cb.subs[j] # f.subs[j].end - f.subs[j].start \/ cb.subs[j] # SubSize(f.subs[j], f.n)
                THEN {TagF("C08", kk, "subframe " \o ToString(j) \o " count_bits " \o ToString(cb.subs[j])
                             \o " vs written " \o ToString(f.subs[j].end - f.subs[j].start))} ELSE {}) \cup
             (IF f.subs[j].kind \in {"fixed", "lpc"} /\
                 (cb.res[j] # f.subs[j].res.p - f.subs[j].res.start \/
                  cb.res[j] # ResidualSize(f.subs[j].res, f.n, f.subs[j].order))
                THEN {TagF("C08", kk, "residual " \o ToString(j) \o " count_bits differs from bits written")} ELSE {})
             : j \in 1..f.nch }
   ELSE {}) \cup
  (IF P("C15") /\ Case.p15.parse = "ok" THEN
     LET t == Ev.t15 IN
     (IF t.dec # x THEN {TagF("C15", kk, "Decode of the parsed frame differs from the input block")} ELSE {}) \cup
     (IF t.n # f.n \/ t.chcode # f.chCode \/ Len(t.subs) # f.nch
        THEN {TagF("C15", kk, "the parser reports block size / channel assignment " \o ToString(<<t.n, t.chcode>>)
                              \o ", the independent parser reads " \o ToString(<<f.n, f.chCode>>))}
      ELSE UNION { LET a == t.subs[j]  s == f.subs[j] IN
                   IF a.kind # s.kind \/ a.order # s.order
                     THEN {TagF("C15", kk, "subframe " \o ToString(j) \o ": parser reports " \o a.kind \o "/" \o ToString(a.order)
                                           \o ", the independent parser reads " \o s.kind \o "/" \o ToString(s.order))}
                   ELSE (IF s.kind = "constant" /\ a.dc # s.samples[1] THEN {TagF("C15", kk, "constant value differs")} ELSE {}) \cup
                        (IF s.kind \in {"fixed", "lpc"} /\ (a.warm # s.warm \/ a.r.porder # s.res.porder \/ a.r.params # s.res.params \/ a.r.res # s.res.out)
                           THEN {TagF("C15", kk, "subframe " \o ToString(j) \o ": warm-up / partition order / Rice parameters / residual reported by the parser differ from the bytes")} ELSE {}) \cup
                        (IF s.kind = "lpc" /\ (a.coefs # s.coefs \/ a.shift # s.shift \/ a.prec # s.prec)
                           THEN {TagF("C15", kk, "subframe " \o ToString(j) \o ": predictor reported by the parser differs from the bytes")} ELSE {})
                   : j \in 1..f.nch })
   ELSE {}) \cup
  (IF P("C13") THEN
     UNION { IF f.subs[j].kind \in {"fixed", "lpc"} THEN
               LET s    == f.subs[j]
                   used == s.res.p - s.res.start
               IN \* bind the optimum once (LET definitions are re-evaluated at every use)
                  UNION { (IF rc.cost < 268435456 /\ used > rc.cost
                           THEN {TagF("C13", kk, "subframe " \o ToString(j) \o ": residual coded in " \o ToString(used)
                                      \o " bits, optimum over the search space is " \o ToString(rc.cost))}
                           ELSE {}) \cup
                          \* not a listed property: WHICH of several optimal codings is emitted (RiceSearch!TieRule)
                          (IF rc.cost < 268435456 /\ used = rc.cost /\ (s.res.porder # rc.order \/ s.res.params # rc.params)
                           THEN {TagF("MD13", kk, "subframe " \o ToString(j) \o ": an optimal coding other than the one the search model predicts: order "
                                      \o ToString(s.res.porder) \o " parameters " \o ToString(s.res.params) \o ", predicted order "
                                      \o ToString(rc.order) \o " parameters " \o ToString(rc.params))}
                           ELSE {})
                          : rc \in {RiceChoice(s.res.out, f.n, s.order, cs.maxp)} }
             ELSE {} : j \in 1..f.nch }
   ELSE {})

Blk ==
  /\ l <= Len(Rec) /\ Ev.ev = "blk" /\ c > 0
  /\ l' = l + 1 /\ c' = c /\ k' = k + 1
  /\ LET cs == Case
         x  == Ev.x
     IN /\ Assert(Len(x) = cs.ch /\ InRange(x, cs.bps), <<"generator produced samples outside the width", cs.id>>)
        /\ md' = IF P("C03") THEN Md5Feed(md, Serialise(x, cs.ch, cs.bps)) ELSE md
        /\ IF pos < 0 \/ NoParseNeeded THEN pos' = pos /\ acc' = acc /\ bad' = bad
           ELSE
           \* `\E v \in {e}` evaluates e exactly once; a LET would re-evaluate it at every use
           \E h \in {StreamHead(cs.bytes)} : \E f \in {ParseFrame(cs.bytes, pos, h.bps)} :
           LET isLast == (k = NBlk(cs) - 1)
           IN IF ~f.ok
              THEN /\ pos' = -1 /\ acc' = acc
                   /\ bad' = bad \cup {TagF("ALL", k, "frame does not parse: " \o f.why)}
              ELSE
              /\ pos' = f.next
              /\ acc' = [minLen  |-> IF acc.frames = 0 THEN f.len ELSE Min2(acc.minLen, f.len),
                         maxLen  |-> Max2(acc.maxLen, f.len),
                         minN    |-> IF isLast THEN acc.minN
                                     ELSE IF acc.minN = 0 THEN f.n ELSE Min2(acc.minN, f.n),
                         frames  |-> acc.frames + 1,
                         samples |-> acc.samples + f.n]
              /\ bad' = bad \cup FrameConjuncts(f, x, cs, h, k, isLast, IF P("C08") THEN Ev.cb ELSE <<>>)

End ==
  /\ l <= Len(Rec) /\ Ev.ev = "end" /\ c > 0
  /\ l' = l + 1 /\ c' = 0 /\ pos' = -1 /\ k' = 0 /\ acc' = Acc0 /\ md' = Md5Start
  /\ LET cs == Case
         b  == cs.bytes
         h  == StreamHead(b)
         m  == Meta(b)
         final == bad \cup
           (IF pos >= 0 /\ P("C01") /\ k # NBlk(cs)
              THEN {Tag("C01", "number of blocks differs")} ELSE {}) \cup
           (IF pos >= 0 /\ pos < Len(b) /\ (P("C02") \/ P("C01"))
              THEN {Tag("C02", ToString(Len(b) - pos) \o " byte(s) follow the last frame")} ELSE {}) \cup
           (IF pos >= 0 /\ P("C02") /\ m.at # (IF m.ok THEN m.at ELSE -1)
              THEN {Tag("C02", "metadata chain")} ELSE {}) \cup
           (IF pos >= 0 /\ P("C03") /\ h.md5 # Md5Finish(md)
              THEN {Tag("C03", "STREAMINFO MD5 differs from the MD5 of the serialised input")} ELSE {}) \cup
           (IF pos >= 0 /\ P("C04") /\ acc.frames >= 1 THEN
              (IF h.maxbs # cs.bs THEN {Tag("C04", "max block size " \o ToString(h.maxbs) \o " is not the requested " \o ToString(cs.bs))} ELSE {}) \cup
              (IF h.minbs < 16 THEN {Tag("C04", "min block size " \o ToString(h.minbs) \o " is below 16")} ELSE {}) \cup
              (IF h.minbs > h.maxbs THEN {Tag("C04", "min block size above max block size")} ELSE {}) \cup
              (IF acc.minN # 0 /\ h.minbs > acc.minN THEN {Tag("C04", "min block size above a non-final block")} ELSE {}) \cup
              (IF h.minfs # acc.minLen THEN {Tag("C04", "min frame size " \o ToString(h.minfs) \o " but smallest frame has " \o ToString(acc.minLen))} ELSE {}) \cup
              (IF h.maxfs # acc.maxLen THEN {Tag("C04", "max frame size " \o ToString(h.maxfs) \o " but largest frame has " \o ToString(acc.maxLen))} ELSE {})
            ELSE {})
     IN /\ PrintT(IF pos = -2 /\ final = {} THEN "VERDICT|" \o cs.id \o "|skip|oversize" ELSE Verdict(cs.id, final))
        /\ bad' = {}

Next == CaseStart \/ Blk \/ End
Spec == Init /\ [][Next]_vars

\* every event of the trace was consumed
Consumed == \/ TLCGet("stats").diameter = Len(Rec) + 1
            \/ (PrintT(<<"UNCONSUMED", TLCGet("stats").diameter, Len(Rec)>>) /\ FALSE)
=============================================================================
